package main

// Generators: they only produce request lines; execution is `apply`.  Every random choice comes from g.r.
import (
	"fmt"
	"math/rand"
	"strconv"
	"strings"
)

type Gen struct {
	r       *rand.Rand
	h       *H
	emit    func(line string) string // runs the line, returns the implementation's answer
	bodyN   int
	profile string
	// per history knowledge of the generator (only used to make mostly-valid requests)
	repos    []string
	blobsIn  map[string][]string // repo -> content tokens pushed
	bodyToks map[string][]string // body name -> kind and tokens of its DEF line
	manIn    map[string][]string // repo -> manifest body names acknowledged
	manMT    map[string]string   // body name -> media type token it was stored under
	manLen   map[string]int
	subjects []string
	sessions []int // public session numbers seen
	tagsUsed []string
	idxTags  map[string][]string // repo -> tags that were pushed pointing to an index
	store    string
	twins    []string // referrers response documents that have been given a body of their own (names are global)
}

func (g *Gen) pick(l []string) string { return l[g.r.Intn(len(l))] }

func (g *Gen) newHistory(conf string) {
	g.blobsIn, g.manIn, g.manMT = map[string][]string{}, map[string][]string{}, map[string]string{}
	if g.manLen == nil {
		g.manLen = map[string]int{}
	}
	g.subjects, g.sessions = nil, nil
	g.idxTags = map[string][]string{}
	g.tagsUsed = []string{"t1", "t2", "t3"}
	if g.r.Intn(3) == 0 {
		// a client's tag that has the form of a referrers fallback tag: in a converted repository it is a tag like any other
		g.tagsUsed = append(g.tagsUsed, "sha256-"+strings.Repeat("ab", 32))
	}
	g.repos = []string{"r1", "r2", "r1/sub"}
	g.emit("NEW " + conf)
}

func (g *Gen) confLine() string {
	st := g.store
	if st == "" {
		st = "mem"
	}
	parts := []string{"store=" + st}
	if g.profile == "switches" {
		for _, k := range []string{"ro", "push", "del", "bdel", "ref"} {
			parts = append(parts, k+"="+strconv.Itoa(g.r.Intn(2)))
		}
	}
	switch g.profile {
	case "limits":
		parts = append(parts, "mlimit="+strconv.Itoa(300+g.r.Intn(200)))
		parts = append(parts, "rlimit="+strconv.Itoa(350+g.r.Intn(600)))
	case "evict":
		parts = append(parts, "upmax="+strconv.Itoa(1+g.r.Intn(4)))
	case "refs":
		if g.r.Intn(2) == 0 {
			parts = append(parts, "rlimit="+strconv.Itoa(300+g.r.Intn(900)))
		}
	case "gc":
		for _, k := range []string{"untagged", "dangling", "withsubj", "emptyrepo"} {
			parts = append(parts, k+"="+strconv.Itoa(g.r.Intn(2)))
		}
		if g.r.Intn(2) == 0 {
			parts = append(parts, "grace=3600")
		}
		if g.r.Intn(4) == 0 {
			// a manifest limit below the size of a referrers response with two or three entries: the limit is on what clients push,
			// not on what the collector reads
			parts = append(parts, "mlimit="+strconv.Itoa(450+g.r.Intn(300)))
		}
	case "rofs":
		// collections through the memory overlay under either grace setting
		if g.r.Intn(2) == 0 {
			parts = append(parts, "grace=3600")
		}
		if g.r.Intn(3) == 0 {
			parts = append(parts, "untagged=1")
		}
	case "raw":
		for _, k := range []string{"push", "del", "bdel", "ref"} {
			if g.r.Intn(4) == 0 {
				parts = append(parts, k+"=0")
			}
		}
	}
	return strings.Join(parts, " ")
}

func (g *Gen) repo() string {
	if g.r.Intn(5) != 0 {
		return "r1"
	}
	return g.pick(g.repos)
}

func (g *Gen) blobTok(repo string) string {
	if len(g.blobsIn[repo]) > 0 && g.r.Intn(6) != 0 {
		return "sha256:" + g.pick(g.blobsIn[repo])
	}
	return g.pick([]string{"sha256:c1", "sha256:?1", "bad:3", "sha512:c1"})
}

func (g *Gen) subjTok(repo string) string {
	switch g.r.Intn(5) {
	case 0, 1:
		if len(g.manIn[repo]) > 0 {
			return "sha256:" + g.pick(g.manIn[repo])
		}
		return "sha256:?2"
	case 2:
		return g.pick([]string{"sha256:?2", "bad:3", "sha512:?2"})
	}
	return ""
}

// defBody emits a DEF line for a new manifest body (unless identical bytes are known) and returns its name
func (g *Gen) defBody(kind string, toks []string) string {
	g.bodyN++
	name := "@b" + strconv.Itoa(g.bodyN)
	raw := g.h.tk.buildBody(name, kind, toks)
	if n2, ok := g.h.tk.nameOf[string(raw)]; ok {
		g.manLen[n2] = len(raw)
		if _, has := g.h.tk.defOf[n2]; !has && strings.HasPrefix(n2, "R(") {
			if def, ok := g.h.tk.twinDef(n2); ok {
				g.emit(def)
			}
		}
		return n2
	}
	g.emit(fmt.Sprintf("DEF %s %s %s len=%d", name, kind, strings.Join(toks, " "), len(raw)))
	g.manLen[name] = len(raw)
	if g.bodyToks == nil {
		g.bodyToks = map[string][]string{}
	}
	g.bodyToks[name] = append([]string{kind}, toks...)
	return name
}

func (g *Gen) pushBlob(repo string) {
	c := g.pick([]string{"c1", "c2", "l1", "l2", "l3", "~", "x*40"})
	alg := "sha256"
	if g.r.Intn(8) == 0 {
		alg = g.pick([]string{"sha512", "sha384"})
	}
	out := g.emit("UPOST " + repo + " digest=" + alg + ":" + c + " body=" + c)
	if strings.HasPrefix(out, "201 ") && alg == "sha256" {
		g.blobsIn[repo] = append(g.blobsIn[repo], c)
	}
}

func (g *Gen) pushManifest(repo string) {
	at := g.pick([]string{"", "", "x/a", "x/b"})
	ann := g.pick([]string{"", "", "k=v"})
	kind := g.pick([]string{"image", "image", "image", "index", "index", "junk", "obj"})
	mtField := ""
	toks := []string{}
	switch kind {
	case "image":
		docker := g.r.Intn(6) == 0
		mt, cfgmt := "ocim", g.pick([]string{"cfg", "empty"})
		if docker {
			mt, cfgmt = "dockm", "dcfg"
		}
		switch g.r.Intn(6) {
		case 0:
			mtField = ""
		case 1:
			mtField = g.pick([]string{"ocii", "other"})
		default:
			mtField = mt
		}
		layers := []string{}
		for j := 0; j < g.r.Intn(3); j++ {
			layers = append(layers, g.blobTok(repo))
		}
		sj := g.subjTok(repo)
		toks = []string{"mt=" + mtField, "cfg=" + g.blobTok(repo), "cfgmt=" + cfgmt, "layers=" + strings.Join(layers, ","), "subj=" + sj, "at=" + at, "ann=" + ann}
		if len(layers) > 0 && g.r.Intn(5) == 0 {
			toks = append(toks, "lmt="+g.pick([]string{"foreign", "dforeign"}))
		}
		if sj != "" {
			g.subjects = append(g.subjects, sj)
		}
	case "index":
		if at == "" && ann == "" {
			// a bare index is byte-identical to a referrers response listing the same descriptors; named by structure elsewhere
			ann = "k=v"
		}
		mt := g.pick([]string{"ocii", "ocii", "dockl"})
		switch g.r.Intn(6) {
		case 0:
			mtField = ""
		case 1:
			mtField = "ocim"
		default:
			mtField = mt
		}
		ch := []string{}
		for j := 0; j < g.r.Intn(3); j++ {
			if len(g.manIn[repo]) > 0 && g.r.Intn(5) != 0 {
				bn := g.pick(g.manIn[repo])
				ch = append(ch, fmt.Sprintf("%s/sha256:%s/%d", g.manMT[bn], bn, g.manLen[bn]))
			} else {
				ch = append(ch, fmt.Sprintf("%s/%s/2", g.pick([]string{"ocim", "dockm", "other"}), g.blobTok(repo)))
			}
		}
		sj := g.subjTok(repo)
		toks = []string{"mt=" + mtField, "children=" + strings.Join(ch, ";"), "subj=" + sj, "at=" + at, "ann=" + ann}
		if len(ch) > 0 && g.r.Intn(4) == 0 {
			toks = append(toks, "cdata=1") // child descriptors carry an embedded data field that is not the child's content
		}
		if sj != "" {
			g.subjects = append(g.subjects, sj)
		}
	}
	if g.profile == "limits" && (kind == "image" || kind == "index") && g.r.Intn(2) == 0 {
		toks = append(toks, "pad="+strconv.Itoa(g.r.Intn(400)))
	}
	name := g.defBody(kind, toks)
	ref := g.pick(g.tagsUsed)
	if last := g.tagsUsed[len(g.tagsUsed)-1]; kind == "index" && strings.HasPrefix(last, "sha256-") && g.r.Intn(3) == 0 {
		ref = last // an index under a tag of fallback form (what the conversion of legacy referrers looks for)
	}
	wrongRef := false
	switch g.r.Intn(8) {
	case 0:
		ref = "sha256:" + name
	case 1:
		ref = "sha512:" + name
	case 2:
		ref = g.pick([]string{"sha256:?3", "bad:1", "bad:3", "sha256:c1"})
		wrongRef = true
	}
	ct := g.pick([]string{"ocim", "ocim", "ocii", "dockm", "dockl", "", "", "other", "ocimx", "json"})
	if g.r.Intn(3) != 0 { // mostly the matching content type
		switch kind {
		case "image":
			ct = g.pick([]string{"ocim", "ocim", "dockm", ""})
			if mtField == "dockm" || mtField == "ocim" {
				if g.r.Intn(4) != 0 {
					ct = mtField
				}
			}
		case "index":
			ct = g.pick([]string{"ocii", "ocii", "dockl", ""})
			if mtField == "dockl" || mtField == "ocii" {
				if g.r.Intn(4) != 0 {
					ct = mtField
				}
			}
		}
	}
	line := fmt.Sprintf("MPUT %s %s ct=%s", repo, ref, ct)
	if ct != "" && g.r.Intn(6) == 0 {
		line += " ctform=" + g.pick([]string{"param", "upper", "dup", "semi", "space", "badparam"})
	}
	if wrongRef && g.r.Intn(2) == 0 {
		// a digest reference that is not the body's digest, accompanied by a ?digest= that is: the reference is the declaration
		line += " qd=" + g.pick([]string{"sha256:" + name, "sha512:" + name, "sha384:" + name})
	} else if g.r.Intn(10) == 0 {
		line += " qd=" + g.pick([]string{"sha256:" + name, "sha512:" + name, "sha256:?3", "bad:1"})
	}
	if (g.profile == "limits" && g.r.Intn(2) == 0) || g.r.Intn(12) == 0 {
		line += " len=unknown" // a body without a declared length (chunked transfer)
	}
	line += " body=" + name
	out := g.emit(line)
	if strings.HasPrefix(out, "201 ") {
		if kind == "index" && !strings.Contains(ref, ":") {
			g.idxTags[repo] = append(g.idxTags[repo], ref)
			// a tagged index read by a client that accepts only the children's types: the registry answers with a child's blob
			// (never with what the index says about the child: size, embedded data)
			for _, t := range toks {
				if t == "cdata=1" || g.r.Intn(6) == 0 {
					g.emit(fmt.Sprintf("MGET %s %s accept=%s", repo, ref, g.pick([]string{"ocim", "ocim,dockm", "dockm"})))
					break
				}
			}
		}
		g.manIn[repo] = append(g.manIn[repo], name)
		stored := ct
		if stored == "" {
			stored = mtField
			if stored == "" {
				stored = "ocim"
				if kind == "index" {
					stored = "ocii"
				}
			}
		}
		g.manMT[name] = stored
	}
}

func (g *Gen) readManifest(repo string) {
	// a tagged index read with an Accept list that lacks the index types: the child fall-back
	if len(g.idxTags[repo]) > 0 && g.r.Intn(3) == 0 {
		acc := g.pick([]string{"ocim", "dockm", "ocim,dockm", "dockm,ocim", "other", "ocim,other"})
		op := g.pick([]string{"MGET", "MGET", "MHEAD"})
		g.emit(fmt.Sprintf("%s %s %s accept=%s", op, repo, g.pick(g.idxTags[repo]), acc))
		return
	}
	var ref string
	if len(g.manIn[repo]) > 0 && g.r.Intn(2) == 0 {
		ref = g.pick([]string{"sha256:", "sha256:", "sha512:"}) + g.pick(g.manIn[repo])
	} else {
		ref = g.pick(append(append([]string{}, g.tagsUsed...), "sha256:?3", "bad:3", "t9"))
	}
	acc := [][]string{{"ocim", "ocii", "dockm", "dockl"}, {"ocim"}, {"ocii"}, {}, {"dockm", "ocim"}, {"ocim", "ocii", "dockm", "dockl"}}[g.r.Intn(6)]
	op := "MGET"
	if g.r.Intn(3) == 0 {
		op = "MHEAD"
	}
	line := fmt.Sprintf("%s %s %s accept=%s", op, repo, ref, strings.Join(acc, ","))
	if len(acc) > 0 && g.r.Intn(4) == 0 {
		line += " accform=" + g.pick([]string{"joined", "param", "bare", "bare", "spaceparam", "spaceparam"})
	}
	if g.r.Intn(8) == 0 {
		line += " range=" + g.pick([]string{"0-3", "2-", "-4", "5-9", "0-100000", "100000-100001"})
	}
	g.emit(line)
}

// nestedIndex pushes an image by digest, an index listing it and an index listing that index (under a tag)
func (g *Gen) nestedIndex(repo string) {
	leaf := g.simpleImage(repo)
	if out := g.emit(fmt.Sprintf("MPUT %s sha256:%s ct=ocim body=%s", repo, leaf, leaf)); !strings.HasPrefix(out, "201 ") {
		return
	}
	g.manIn[repo] = append(g.manIn[repo], leaf)
	g.manMT[leaf] = "ocim"
	// both index media types, in every combination (a Docker manifest list is an index like the OCI one)
	imt, omt := g.pick([]string{"ocii", "ocii", "dockl"}), g.pick([]string{"ocii", "ocii", "dockl"})
	inner := g.defBody("index", []string{"mt=" + imt, fmt.Sprintf("children=ocim/sha256:%s/%d", leaf, g.manLen[leaf]), "subj=", "at=", "ann=k=in" + strconv.Itoa(g.bodyN)})
	ref := g.pick([]string{"sha256:" + inner, "sha256:" + inner, "t2"})
	if out := g.emit(fmt.Sprintf("MPUT %s %s ct=%s body=%s", repo, ref, imt, inner)); !strings.HasPrefix(out, "201 ") {
		return
	}
	g.manIn[repo] = append(g.manIn[repo], inner)
	g.manMT[inner] = imt
	outer := g.defBody("index", []string{"mt=" + omt, fmt.Sprintf("children=%s/sha256:%s/%d", imt, inner, g.manLen[inner]), "subj=", "at=", "ann=k=out" + strconv.Itoa(g.bodyN)})
	if out := g.emit(fmt.Sprintf("MPUT %s %s ct=%s body=%s", repo, g.pick([]string{"t1", "t3"}), omt, outer)); strings.HasPrefix(out, "201 ") {
		g.manIn[repo] = append(g.manIn[repo], outer)
		g.manMT[outer] = omt
	}
}

// repushIncomplete: a manifest that was acknowledged loses one of the blobs it refers to (blob delete) and is pushed
// again under another reference: it is no longer complete and must be refused like a first push (C04)
func (g *Gen) repushIncomplete(repo string) {
	if len(g.manIn[repo]) == 0 {
		return
	}
	name := g.pick(g.manIn[repo])
	toks := g.bodyToks[name]
	if len(toks) == 0 {
		return
	}
	refs := []string{}
	if v := kv(toks, "cfg"); v != "" {
		refs = append(refs, v)
	}
	refs = append(refs, csv(kv(toks, "layers"))...)
	for _, c := range strings.Split(kv(toks, "children"), ";") {
		if p := strings.SplitN(c, "/", 3); len(p) == 3 {
			refs = append(refs, p[1])
		}
	}
	if len(refs) == 0 {
		return
	}
	g.emit("BDEL " + repo + " " + g.pick(refs))
	mt := g.manMT[name]
	g.emit(fmt.Sprintf("MPUT %s %s ct=%s body=%s", repo, g.pick([]string{"t2", "t3", "sha256:" + name}), mt, name))
}

func (g *Gen) step() {
	repo := g.repo()
	if g.r.Intn(25) == 0 {
		g.nestedIndex(repo)
		return
	}
	if g.r.Intn(30) == 0 {
		g.repushIncomplete(repo)
		return
	}
	switch g.r.Intn(16) {
	case 0, 1, 2:
		g.pushBlob(repo)
	case 3, 4, 5, 6:
		g.pushManifest(repo)
	case 7, 8, 9:
		g.readManifest(repo)
	case 10: // delete manifest
		var ref string
		if len(g.manIn[repo]) > 0 && g.r.Intn(2) == 0 {
			ref = "sha256:" + g.pick(g.manIn[repo])
		} else {
			ref = g.pick(append(append([]string{}, g.tagsUsed...), "sha256:?3"))
		}
		g.emit(fmt.Sprintf("MDEL %s %s", repo, ref))
	case 11: // tags
		line := "TAGS " + repo
		if g.r.Intn(2) == 0 {
			line += " n=" + g.pick([]string{"0", "1", "2", "5", "-1", "x", "9223372036854775807", "99999999999999999999"})
		}
		if g.r.Intn(3) == 0 {
			line += " last=" + g.pick([]string{"t1", "t2", "a", "zz", "T"})
		}
		g.emit(line)
	case 12, 13: // referrers
		sj := "sha256:?2"
		if len(g.subjects) > 0 && g.r.Intn(5) != 0 {
			sj = g.pick(g.subjects)
		}
		line := fmt.Sprintf("REFS %s %s", repo, sj)
		if g.r.Intn(3) == 0 {
			line += " at=" + g.pick([]string{"x/a", "x/b", "cfg"})
		}
		g.emit(line)
		if g.r.Intn(3) == 0 {
			g.emit(line) // repeated identical request: cache path
		}
	case 14: // delete a blob (layer, config or manifest blob)
		var tok string
		if len(g.manIn[repo]) > 0 && g.r.Intn(2) == 0 {
			tok = "sha256:" + g.pick(g.manIn[repo])
		} else if len(g.blobsIn[repo]) > 0 {
			tok = "sha256:" + g.pick(g.blobsIn[repo])
		} else {
			tok = "sha256:?3"
		}
		g.emit("BDEL " + repo + " " + tok)
	case 15: // read a blob
		var tok string
		if len(g.blobsIn[repo]) > 0 && g.r.Intn(4) != 0 {
			tok = "sha256:" + g.pick(g.blobsIn[repo])
		} else if len(g.manIn[repo]) > 0 && g.r.Intn(2) == 0 {
			tok = "sha256:" + g.pick(g.manIn[repo])
		} else {
			tok = g.pick([]string{"sha256:?3", "bad:1", "sha512:c1", "bad:2"})
		}
		op := g.pick([]string{"BGET", "BGET", "BHEAD"})
		line := op + " " + repo + " " + tok
		if g.r.Intn(5) == 0 {
			line += " range=" + g.pick([]string{"0-0", "1-", "-1", "0-100", "39-41", "40-41", "2-1"})
		}
		g.emit(line)
	}
}

// ---- upload profile (sessions)

func (g *Gen) sessTok() string {
	if len(g.sessions) > 0 && g.r.Intn(8) != 0 {
		return "s" + strconv.Itoa(g.sessions[g.r.Intn(len(g.sessions))])
	}
	return "s" + strconv.Itoa(90+g.r.Intn(3))
}

func (g *Gen) noteSession(out string) {
	if i := strings.Index(out, ":s"); i >= 0 && strings.Contains(out, "loc=session:") {
		rest := out[strings.Index(out, "loc=session:"):]
		p := strings.SplitN(strings.SplitN(rest, ":s", 2)[1], "?", 2)
		if n, err := strconv.Atoi(p[0]); err == nil {
			for _, k := range g.sessions {
				if k == n {
					return
				}
			}
			g.sessions = append(g.sessions, n)
		}
	}
}

func offsetOf(out string) int {
	if i := strings.Index(out, "?state="); i >= 0 {
		rest := out[i+7:]
		if j := strings.IndexAny(rest, " "); j >= 0 {
			rest = rest[:j]
		}
		n, _ := strconv.Atoi(rest)
		return n
	}
	return 0
}

func (g *Gen) uploadStep(offs map[int]int, recv map[int]string) {
	expand := func(c string) string { return string(g.h.tk.content(c)) }
	repo := "r1"
	if g.r.Intn(6) == 0 {
		repo = "r2"
	}
	chunk := func() string { return g.pick([]string{"aa", "b", "~", "ccc", "x*40"}) }
	algo := func() string { return g.pick([]string{"sha256", "sha256", "sha384", "sha512"}) }
	switch g.r.Intn(14) {
	case 0, 1: // POST variants
		switch g.r.Intn(5) {
		case 0: // monolithic
			c := chunk()
			d := algo() + ":" + c
			if g.r.Intn(4) == 0 {
				d = g.pick([]string{"sha256:zz", "bad:1", "sha512:aa", "bad:2"})
			}
			out := g.emit("UPOST " + repo + " digest=" + d + " body=" + c)
			if strings.HasPrefix(out, "201") && strings.HasPrefix(d, "sha256:") {
				g.blobsIn[repo] = append(g.blobsIn[repo], c)
			}
		case 1: // mount
			src := g.pick([]string{"r1", "r2", "r3", "../x", "r1/../r2", "blobs"})
			c := g.pick([]string{"aa", "b", "aab", "zz", "~"}) // ~ : the empty blob (the digest every fresh digester starts with)
			if c == "~" && g.profile == "rofs" {
				// under the memory overlay BlobCreate's "exists" looks at the overlay only; the model does not tell overlay from
				// directory content (DESIGN I.6), so a blob that an earlier step may have put into the directory is not mounted here
				c = "zz"
			}
			line := "UPOST " + repo + " mount=" + algo() + ":" + c + " from=" + src
			if g.r.Intn(4) == 0 {
				line += " digest=" + algo() + ":" + c + " body=" + c
			}
			g.noteSession(g.emit(line))
		case 2, 3: // with algorithm
			g.noteSession(g.emit("UPOST " + repo + " algo=" + g.pick([]string{"sha256", "sha384", "sha512", "sha512", "md5", "sha1"})))
		default:
			g.noteSession(g.emit("UPOST " + repo))
		}
	case 2, 3, 4, 5: // PATCH
		sid := g.sessTok()
		n := sessNum(sid)
		off := offs[n]
		st := strconv.Itoa(off)
		switch g.r.Intn(8) {
		case 0:
			st = strconv.Itoa(off + 1)
		case 1:
			st = g.pick([]string{"junk", "junk2", ""})
		case 2:
			if off > 0 {
				st = strconv.Itoa(off - 1)
			}
		}
		c := chunk()
		line := "UPATCH " + repo + " " + sid + " state=" + st
		switch g.r.Intn(6) {
		case 0:
			line += fmt.Sprintf(" cr=%d-%d", off, off+len(g.h.tk.content(c))-1)
		case 1:
			line += " cr=" + g.pick([]string{fmt.Sprintf("%d-%d", off+1, off+5), "x-y", "-5", "5"})
		}
		out := g.emit(line + " body=" + c)
		if strings.HasPrefix(out, "202") {
			offs[n] = offsetOf(out)
			recv[n] += expand(c)
		}
	case 6, 7, 8: // PUT
		sid := g.sessTok()
		n := sessNum(sid)
		off := offs[n]
		c := chunk()
		full := recv[n] + expand(c)
		if full == "" {
			full = "~"
		}
		line := "UPUT " + repo + " " + sid + " state=" + strconv.Itoa(off)
		if g.r.Intn(8) == 0 {
			line = "UPUT " + repo + " " + sid + " state=" + g.pick([]string{strconv.Itoa(off + 1), "junk", ""})
		}
		// the declared digest: mostly the digest of what the generator believes was received + c
		line += " digest=" + g.pick([]string{"sha256:" + full, "sha256:" + full, "sha256:" + full, "sha384:" + full, "sha512:" + full, "sha256:zz", "sha512:zz", "sha384:zz",
			"sha512:" + full + "x", "bad:1", ""})
		if g.r.Intn(8) == 0 {
			line += " cr=" + g.pick([]string{fmt.Sprintf("%d-%d", off, off+1), fmt.Sprintf("%d-%d", off+2, off+3)})
		}
		out := g.emit(line + " body=" + c)
		// a completed session is gone, also when its content was in the repository already
		if strings.HasPrefix(out, "201 ") && g.r.Intn(3) == 0 {
			g.emit(g.pick([]string{"UGET ", "UGET ", "UDEL "}) + repo + " " + sid)
		}
		// a refused PUT ends the session; a client that goes on with it all the same must be refused as well - and if it
		// is not, what it ends up storing is read back
		if strings.HasPrefix(out, "400 ") && g.r.Intn(2) == 0 {
			st := g.emit("UGET " + repo + " " + sid)
			if strings.HasPrefix(st, "204 ") {
				if i := strings.Index(st, " range=0-"); i >= 0 {
					if end, err := strconv.Atoi(strings.Fields(st[i+9:])[0]); err == nil {
						g.emit(fmt.Sprintf("UPATCH %s %s state=%d body=b", repo, sid, end+1))
						full2 := full + "b"
						g.emit(fmt.Sprintf("UPUT %s %s state=%d digest=sha512:%s body=~", repo, sid, end+2, full2))
						g.emit("BGET " + repo + " sha512:" + full2)
					}
				}
			}
		}
	case 9:
		g.emit("UGET " + repo + " " + g.sessTok())
		// content the repository already holds, pushed once more through a session of its own: completed like any other and gone
		if g.r.Intn(2) == 0 && len(g.blobsIn[repo]) > 0 {
			c := g.pick(g.blobsIn[repo])
			if out := g.emit("UPOST " + repo); strings.Contains(out, "loc=session:") {
				sid := out[strings.Index(out, "loc=session:")+len("loc=session:"):]
				sid = strings.SplitN(strings.SplitN(sid, "?", 2)[0], ":", 2)[1]
				g.noteSession(out)
				if put := g.emit("UPUT " + repo + " " + sid + " state=0 digest=sha256:" + c + " body=" + c); strings.HasPrefix(put, "201 ") {
					g.emit("UGET " + repo + " " + sid)
				}
			}
		}
	case 10:
		g.emit("UDEL " + repo + " " + g.sessTok())
	case 11, 12:
		var tok string
		if len(g.blobsIn[repo]) > 0 && g.r.Intn(3) != 0 {
			tok = "sha256:" + g.pick(g.blobsIn[repo])
		} else {
			tok = g.pick([]string{"sha256:aa", "sha512:aa", "sha256:aab", "sha256:aaaa", "sha256:?3", "bad:1"})
		}
		g.emit(g.pick([]string{"BGET", "BHEAD"}) + " " + repo + " " + tok)
	case 13:
		if confInt(g.h.confToks, "upmax") > 0 {
			g.emit("PRUNE " + repo + " count")
		} else {
			g.emit("BDEL " + repo + " sha256:" + g.pick([]string{"aa", "b", "aab"}))
		}
	}
}

func (g *Gen) run(n int) {
	for hi := 0; hi < n; hi++ {
		g.newHistory(g.confLine())
		switch g.profile {
		case "upload", "evict":
			if hi%60 == 7 && g.profile == "upload" {
				g.emit("EXPIRY " + g.pick([]string{"40", "60"}) + " " + g.pick([]string{"dir", "mem"}) + " " + g.pick([]string{"cancel", "complete"}))
			}
			offs, recv := map[int]int{}, map[int]string{}
			k := 8 + g.r.Intn(25)
			for i := 0; i < k; i++ {
				g.uploadStep(offs, recv)
			}
		case "tags":
			g.tagsUsed = []string{"t1", "t2", "t3", "A", "_x", "a.b-c", "t10"}
			k := 8 + g.r.Intn(30)
			for i := 0; i < k; i++ {
				g.tagsStep()
			}
		case "refs":
			k := 8 + g.r.Intn(30)
			for i := 0; i < k; i++ {
				g.refsStep()
			}
		case "raw":
			k := 10 + g.r.Intn(30)
			for i := 0; i < k; i++ {
				g.rawStep()
			}
		case "isolation":
			g.repos = []string{"r1", "r2", "r1/sub", "r1/sub/x", "r", "r1-", "blobs", "r1/blobs", "index.json", "a/oci-layout/b",
				"r1/blobs/x", "r1/blobs/sha256/" + strings.Repeat("ab", 32), "r1/index.json/y",
				// valid names that only resemble what a layout holds
				"r1/index.json.d", "r1/oci-layout2", "r1/blobs2", "r1/uploads"}
			offs, recv := map[int]int{}, map[int]string{}
			k := 10 + g.r.Intn(30)
			for i := 0; i < k; i++ {
				g.isolationStep(offs, recv)
			}
		case "gc":
			// object graphs through the API, ages set by hook, a collection at any point
			k := 10 + g.r.Intn(30)
			for i := 0; i < k; i++ {
				switch g.r.Intn(14) {
				case 0, 1:
					g.emit("GC " + g.pick([]string{"r1", "r1", "r1", "r2"}))
				case 2, 3: // age something
					repo := "r1"
					var tok string
					if len(g.manIn[repo]) > 0 && g.r.Intn(2) == 0 {
						tok = "sha256:" + g.pick(g.manIn[repo])
					} else if len(g.blobsIn[repo]) > 0 {
						tok = "sha256:" + g.pick(g.blobsIn[repo])
					} else {
						tok = "sha256:c1"
					}
					g.emit("SETTIME " + repo + " " + tok + " " + g.pick([]string{"old", "old", "recent"}))
					// uploading or pushing again what is already there (and old) makes it recent: every form of upload
					if g.r.Intn(3) == 0 && strings.HasPrefix(tok, "sha256:") {
						c := strings.TrimPrefix(tok, "sha256:")
						switch g.r.Intn(4) {
						case 0:
							g.emit("UPOST " + repo + " digest=" + tok + " body=" + c)
						case 1:
							if out := g.emit("UPOST " + repo); strings.Contains(out, "loc=session:") {
								sid := out[strings.Index(out, "loc=session:")+len("loc=session:"):]
								sid = strings.SplitN(strings.SplitN(sid, "?", 2)[0], ":", 2)[1]
								g.emit("UPUT " + repo + " " + sid + " state=0 digest=" + tok + " body=" + c)
							}
						case 2:
							g.emit("UPOST r2 digest=" + tok + " body=" + c)
							g.emit("UPOST " + repo + " mount=" + tok + " from=r2")
						case 3:
							if mt, ok := g.manMT[c]; ok {
								g.emit(fmt.Sprintf("MPUT %s %s ct=%s body=%s", repo, g.pick([]string{tok, "t3"}), mt, c))
							}
						}
					}
				case 4, 5, 6:
					g.refsStep()
				case 7:
					if g.r.Intn(3) == 0 {
						g.tagsStep()
						break
					}
					if g.r.Intn(2) == 0 {
						// the pass that empties the index of a repository which still holds a fresh blob: the directory stays, and
						// with it an index.json that must say what the pass left (nothing)
						repo := g.pick([]string{"r2", "r1/sub"})
						g.emit("UPOST " + repo + " digest=sha256:c1 body=c1")
						name := g.simpleImage(repo)
						if out := g.emit(fmt.Sprintf("MPUT %s sha256:%s ct=ocim body=%s", repo, name, name)); strings.HasPrefix(out, "201 ") {
							g.manIn[repo] = append(g.manIn[repo], name)
							g.manMT[name] = "ocim"
						}
						for _, t := range []string{"sha256:c1", "sha256:c2", "sha256:c3", "sha256:" + name} {
							g.emit("SETTIME " + repo + " " + t + " old")
						}
						g.emit("UPOST " + repo + " digest=sha256:l2 body=l2")
						g.emit("GC " + repo)
						g.emit("TAGS " + repo)
						break
					}
					// a blob nothing refers to, old, uploaded again through a session (chunked or in the closing PUT) and
					// collected right away: the acknowledged upload is recent whatever the store did with the bytes it held already
					repo := "r1"
					c := g.pick([]string{"l1", "l2", "c3"})
					g.emit("UPOST " + repo + " digest=sha256:" + c + " body=" + c)
					g.emit("SETTIME " + repo + " sha256:" + c + " old")
					if out := g.emit("UPOST " + repo); strings.Contains(out, "loc=session:") {
						sid := out[strings.Index(out, "loc=session:")+len("loc=session:"):]
						sid = strings.SplitN(strings.SplitN(sid, "?", 2)[0], ":", 2)[1]
						if g.r.Intn(2) == 0 {
							g.emit("UPATCH " + repo + " " + sid + " state=0 body=" + c)
							g.emit(fmt.Sprintf("UPUT %s %s state=%d digest=sha256:%s", repo, sid, len(g.h.tk.content(c)), c))
						} else {
							g.emit("UPUT " + repo + " " + sid + " state=0 digest=sha256:" + c + " body=" + c)
						}
					}
					g.emit("GC " + repo)
					g.emit("BHEAD " + repo + " sha256:" + c)
				case 8:
					// a tagged image with a layer of a media type of its own (non-distributable): uploaded, referenced, retained
					repo := "r1"
					for _, c := range []string{"c1", "l3"} {
						g.emit("UPOST " + repo + " digest=sha256:" + c + " body=" + c)
					}
					name := g.defBody("image", []string{"mt=ocim", "cfg=sha256:c1", "cfgmt=cfg", "layers=sha256:l3", "subj=", "at=", "ann=", "lmt=" + g.pick([]string{"foreign", "dforeign"})})
					if out := g.emit(fmt.Sprintf("MPUT %s t3 ct=ocim body=%s", repo, name)); strings.HasPrefix(out, "201 ") {
						g.manIn[repo] = append(g.manIn[repo], name)
						g.manMT[name] = "ocim"
						if g.r.Intn(2) == 0 {
							g.emit("SETTIME " + repo + " sha256:l3 old")
						}
						g.emit("GC " + repo)
						g.emit("BHEAD " + repo + " sha256:l3")
					}
				default:
					g.step()
				}
			}
		case "rofs":
			// build content on a writable directory store, then serve it read-only or through a memory overlay
			k := 6 + g.r.Intn(15)
			for i := 0; i < k; i++ {
				if g.r.Intn(3) == 0 {
					g.refsStep()
				} else {
					g.step()
				}
			}
			mode := g.pick([]string{"ro=1", "store=memdir", "store=memdir", "ro=1 del=0", "store=memdir push=1 del=1"})
			if g.r.Intn(2) == 0 {
				mode += " prep=1" // leftovers put into the directory by hand between the two servers (see fsPrep)
			}
			// some of what the directory holds is older than the grace period when the second server opens it: an upload the
			// overlay acknowledges is recent all the same
			if g.r.Intn(2) == 0 {
				for _, c := range g.blobsIn["r1"] {
					if g.r.Intn(2) == 0 {
						g.emit("SETTIME r1 sha256:" + c + " old")
					}
				}
			}
			// a layer nothing refers to, old when the second server opens the directory, uploaded again there and collected at once
			reup := g.r.Intn(3) == 0
			if reup {
				g.emit("UPOST r1 digest=sha256:l3 body=l3")
				g.emit("SETTIME r1 sha256:l3 old")
			}
			g.emit("RESTART " + mode)
			g.sessions = nil
			if reup {
				g.emit(g.pick([]string{"UPOST r1 digest=sha256:l3 body=l3", "UPOST r1 mount=sha256:l3 from=r1"}))
				if strings.HasPrefix(mode, "store=memdir") {
					g.emit("GC r1")
				}
				g.emit("BHEAD r1 sha256:l3")
			}
			offs, recv := map[int]int{}, map[int]string{}
			k = 8 + g.r.Intn(25)
			for i := 0; i < k; i++ {
				switch g.r.Intn(12) {
				case 0:
					// the read-only directory store never collects (no ticker, no collection on prune)
					if strings.HasPrefix(mode, "store=memdir") {
						g.emit("GC " + g.repo())
					}
				case 1:
					g.emit("RESTART")
					g.sessions = nil
				case 2, 3:
					g.uploadStep(offs, recv)
				case 4:
					g.refsStep()
				case 5:
					// content the directory already holds is uploaded again (the overlay then has its own copy), what refers
					// to it is deleted, and a collection follows: the copy underneath must not show through
					repo := "r1"
					if len(g.blobsIn[repo]) > 0 {
						c := g.pick(g.blobsIn[repo])
						g.emit("UPOST " + repo + " digest=sha256:" + c + " body=" + c)
						if g.r.Intn(2) == 0 {
							// ... or is deleted through the blob API and read again
							g.emit("BDEL " + repo + " sha256:" + c)
							g.emit(g.pick([]string{"BHEAD ", "BGET "}) + repo + " sha256:" + c)
						}
					}
					if len(g.manIn[repo]) > 0 && g.r.Intn(2) == 0 {
						g.emit("MDEL " + repo + " sha256:" + g.pick(g.manIn[repo]))
					}
					if strings.HasPrefix(mode, "store=memdir") && g.r.Intn(2) == 0 {
						g.emit("GC " + repo)
					}
				default:
					g.step()
				}
			}
		case "restart":
			k := 8 + g.r.Intn(30)
			for i := 0; i < k; i++ {
				if g.r.Intn(9) == 0 {
					g.emit("RESTART")
					g.sessions = nil
					// what was acknowledged is read again right after the restart: manifests by digest (children of indexes among them) and tags
					for k := 0; k < 3 && len(g.manIn["r1"]) > 0; k++ {
						name := g.pick(g.manIn["r1"])
						g.emit(fmt.Sprintf("%s r1 sha256:%s accept=%s", g.pick([]string{"MGET", "MGET", "MHEAD"}), name, g.manMT[name]))
					}
					g.emit("TAGS r1")
					// … and every tag the history uses is resolved (a tag acknowledged before the restart resolves after it)
					for _, t := range g.tagsUsed {
						g.emit(fmt.Sprintf("MHEAD r1 %s accept=ocim,ocii,dockm,dockl", t))
					}
				} else if g.r.Intn(3) == 0 {
					g.refsStep()
				} else {
					g.step()
				}
			}
		default:
			k := 6 + g.r.Intn(28)
			for i := 0; i < k; i++ {
				g.step()
			}
		}
	}
}

// ---- tags profile: tag moves, multi-tagging, deletes by tag and digest, listing with every class of n and last

func (g *Gen) simpleImage(repo string) string {
	// a valid image whose config is pushed first
	c := g.pick([]string{"c1", "c2", "c3"})
	has := false
	for _, b := range g.blobsIn[repo] {
		if b == c {
			has = true
		}
	}
	if !has {
		out := g.emit("UPOST " + repo + " digest=sha256:" + c + " body=" + c)
		if strings.HasPrefix(out, "201 ") {
			g.blobsIn[repo] = append(g.blobsIn[repo], c)
		}
	}
	return g.defBody("image", []string{"mt=ocim", "cfg=sha256:" + c, "cfgmt=cfg", "layers=", "subj=", "at=", "ann=" + g.pick([]string{"", "k=v", "k=w"})})
}

func (g *Gen) tagsStep() {
	repo := "r1"
	if g.r.Intn(8) == 0 {
		repo = "r2"
	}
	switch g.r.Intn(12) {
	case 0, 1, 2, 3: // push under a tag (new image or an existing one: multi-tagging, tag moves)
		var name string
		if len(g.manIn[repo]) > 0 && g.r.Intn(2) == 0 {
			name = g.pick(g.manIn[repo])
		} else {
			name = g.simpleImage(repo)
		}
		out := g.emit(fmt.Sprintf("MPUT %s %s ct=ocim body=%s", repo, g.pick(g.tagsUsed), name))
		if strings.HasPrefix(out, "201 ") {
			g.manIn[repo] = append(g.manIn[repo], name)
			g.manMT[name] = "ocim"
		}
	case 4: // untagged push by digest
		name := g.simpleImage(repo)
		out := g.emit(fmt.Sprintf("MPUT %s sha256:%s ct=ocim body=%s", repo, name, name))
		if strings.HasPrefix(out, "201 ") {
			g.manIn[repo] = append(g.manIn[repo], name)
			g.manMT[name] = "ocim"
		}
	case 5: // delete a tag
		g.emit(fmt.Sprintf("MDEL %s %s", repo, g.pick(g.tagsUsed)))
	case 6: // delete by digest
		if len(g.manIn[repo]) > 0 {
			g.emit(fmt.Sprintf("MDEL %s sha256:%s", repo, g.pick(g.manIn[repo])))
		} else {
			g.emit(fmt.Sprintf("MDEL %s sha256:?3", repo))
		}
	case 7, 8, 9: // listing
		line := "TAGS " + repo
		if g.r.Intn(3) != 0 {
			line += " n=" + g.pick([]string{"0", "1", "1", "2", "3", "5", "100", "-1", "-7", "x", "", "9223372036854775807", "9223372036854775808", "99999999999999999999", "+2", "1.5"})
		}
		if g.r.Intn(3) == 0 {
			line += " last=" + g.pick([]string{"t1", "t2", "t10", "a", "zz", "T", "A", "_", "t"})
		}
		g.emit(line)
	case 10: // resolve a tag
		g.emit(fmt.Sprintf("MGET %s %s accept=ocim", repo, g.pick(g.tagsUsed)))
	case 11: // read by digest
		if len(g.manIn[repo]) > 0 {
			g.emit(fmt.Sprintf("MHEAD %s sha256:%s accept=ocim,ocii", repo, g.pick(g.manIn[repo])))
		}
	}
}

// ---- refs profile: artifacts by tag and digest, deletes, filters, small limits, cache parameters

func (g *Gen) refsStep() {
	repo := "r1"
	if g.r.Intn(6) == 0 {
		repo = "r2"
	}
	if len(g.twins) > 0 && g.r.Intn(40) == 0 {
		g.twinFirst(repo)
		return
	}
	if g.r.Intn(14) == 0 {
		g.filterBurst(repo)
		return
	}
	switch g.r.Intn(14) {
	case 0: // a subject
		name := g.simpleImage(repo)
		ref := g.pick([]string{"t1", "sha256:" + name})
		out := g.emit(fmt.Sprintf("MPUT %s %s ct=ocim body=%s", repo, ref, name))
		if strings.HasPrefix(out, "201 ") {
			g.manIn[repo] = append(g.manIn[repo], name)
			g.manMT[name] = "ocim"
			g.subjects = append(g.subjects, "sha256:"+name)
		}
	case 1, 2, 3, 4, 5: // an artifact
		sj := "sha256:?2"
		if len(g.subjects) > 0 && g.r.Intn(6) != 0 {
			sj = g.pick(g.subjects)
		} else if g.r.Intn(3) == 0 {
			sj = g.pick([]string{"sha512:?2", "bad:3"})
		}
		g.subjects = append(g.subjects, sj)
		c := "c1"
		has := false
		for _, b := range g.blobsIn[repo] {
			if b == c {
				has = true
			}
		}
		if !has {
			if out := g.emit("UPOST " + repo + " digest=sha256:c1 body=c1"); strings.HasPrefix(out, "201 ") {
				g.blobsIn[repo] = append(g.blobsIn[repo], c)
			}
		}
		var name, ct string
		if g.r.Intn(4) == 0 {
			ct = g.pick([]string{"ocii", "dockl"})
			name = g.defBody("index", []string{"mt=" + ct, "children=", "subj=" + sj, "at=" + g.pick([]string{"", "x/a", "x/b"}), "ann=" + g.pick([]string{"", "k=v", "a=b;c=d"})})
		} else {
			ct = g.pick([]string{"ocim", "ocim", "dockm"})
			cfgmt := g.pick([]string{"cfg", "empty"})
			if ct == "dockm" {
				cfgmt = "dcfg"
			}
			name = g.defBody("image", []string{"mt=" + ct, "cfg=sha256:c1", "cfgmt=" + cfgmt, "layers=", "subj=" + sj, "at=" + g.pick([]string{"", "x/a", "x/b"}), "ann=" + g.pick([]string{"", "k=v", "n=" + strconv.Itoa(g.bodyN), "org.opencontainers.image.ref.name=foo", "n=" + strconv.Itoa(g.bodyN) + ";org.opencontainers.image.ref.name=foo"})})
		}
		ref := g.pick([]string{"t1", "t2", "t3", "sha256:" + name, "sha256:" + name, "sha512:" + name})
		out := g.emit(fmt.Sprintf("MPUT %s %s ct=%s body=%s", repo, ref, ct, name))
		if strings.HasPrefix(out, "201 ") {
			g.manIn[repo] = append(g.manIn[repo], name)
			g.manMT[name] = ct
			if g.r.Intn(3) == 0 {
				g.subjects = append(g.subjects, "sha256:"+name) // referrers of referrers
			}
		}
	case 6: // delete by digest; sometimes the same manifest is pushed again afterwards (the referrers list returns to an earlier value)
		if len(g.manIn[repo]) > 0 {
			name := g.pick(g.manIn[repo])
			out := g.emit(fmt.Sprintf("MDEL %s %s%s", repo, g.pick([]string{"sha256:", "sha256:", "sha512:"}), name))
			if strings.HasPrefix(out, "202 ") && g.r.Intn(2) == 0 {
				if g.r.Intn(2) == 0 {
					g.emit(fmt.Sprintf("REFS %s %s", repo, g.pick(append([]string{"sha256:?2"}, g.subjects...))))
				}
				g.emit(fmt.Sprintf("MPUT %s %s ct=%s body=%s", repo, g.pick([]string{"sha256:" + name, "t1", "t3"}), g.manMT[name], name))
			}
		}
	case 7: // delete a tag
		g.emit(fmt.Sprintf("MDEL %s %s", repo, g.pick([]string{"t1", "t2", "t3"})))
	default: // referrers
		sj := "sha256:?2"
		if len(g.subjects) > 0 && g.r.Intn(8) != 0 {
			sj = g.pick(g.subjects)
		}
		line := fmt.Sprintf("REFS %s %s", repo, sj)
		if g.r.Intn(3) == 0 {
			line += " at=" + g.pick([]string{"x/a", "x/b", "cfg", "empty", "zz"})
		}
		out := g.emit(line)
		firstOut := out
		// follow the Link chain, sometimes on another repository or subject, sometimes with a stale page
		for hops := 0; hops < 4 && strings.Contains(out, "link=next(cache="); hops++ {
			rest := out[strings.Index(out, "link=next(cache=")+len("link=next(cache="):]
			cache := rest[:strings.Index(rest, ",page=")]
			page := rest[strings.Index(rest, ",page=")+6:]
			page = page[:strings.Index(page, ")")]
			if i := strings.Index(page, ",at="); i >= 0 {
				page = page[:i]
			}
			tr, tsj := repo, sj
			switch g.r.Intn(10) {
			case 0:
				tr = "r2"
			case 1:
				if len(g.subjects) > 0 {
					tsj = g.pick(g.subjects)
				}
			}
			l2 := fmt.Sprintf("REFS %s %s", tr, tsj)
			if i := strings.Index(line, " at="); i >= 0 {
				l2 += line[i:]
			}
			out = g.emit(l2 + " cache=" + cache + " page=" + page)
			// the page just beyond the last one, under the same filter (cached pages) and under a filter not used
			// before (the response is read and split again): an out-of-range page number falls back to the first page
			if !strings.Contains(out, "link=next(cache=") && tr == repo && tsj == sj && g.r.Intn(2) == 0 {
				if pn, err := strconv.Atoi(page); err == nil {
					beyond := strconv.Itoa(pn + 1)
					g.emit(l2 + " cache=" + cache + " page=" + beyond)
					g.emit(fmt.Sprintf("REFS %s %s at=%s cache=%s page=%s", repo, sj, g.pick([]string{"zz", "x/a", "x/b", "cfg"}), cache, g.pick([]string{beyond, page, strconv.Itoa(pn + 2)})))
				}
			}
		}
		if g.r.Intn(4) == 0 {
			g.emit(line + " cache=" + g.pick([]string{"sha256:?9", "bad:1", sj}) + " page=" + g.pick([]string{"1", "2", "-1", "x", "0", "9223372036854775807", "9223372036854775808", "-9223372036854775808"}))
		}
		// a continuation that has gone stale: the list changes (a listed artifact is deleted by digest) and the client goes on
		// with the cache digest it was given, on a path that misses the page cache (a filter not used with it before)
		if i := strings.Index(firstOut, "link=next(cache="); i >= 0 && g.r.Intn(3) == 0 && len(g.manIn[repo]) > 0 {
			rest := firstOut[i+len("link=next(cache="):]
			if j := strings.Index(rest, ",page="); j > 0 {
				cache := rest[:j]
				g.emit(fmt.Sprintf("MDEL %s sha256:%s", repo, g.pick(g.manIn[repo])))
				g.emit(fmt.Sprintf("REFS %s %s cache=%s page=1", repo, sj, cache))
				g.emit(fmt.Sprintf("REFS %s %s at=%s cache=%s page=%s", repo, sj, g.pick([]string{"zz", "x/a", "x/b"}), cache, g.pick([]string{"1", "2"})))
			}
		}
		if g.r.Intn(3) == 0 {
			g.emit(line)
		}
		// the response document itself addressed as a manifest: read and (attempted) delete by its digest
		if i := strings.Index(out, " body=["); i >= 0 && !strings.Contains(line, " at=") && !strings.Contains(out, "link=next(") && g.r.Intn(5) == 0 {
			inner := out[i+7:]
			if j := strings.Index(inner, "] ct="); j > 0 {
				tok := "sha256:R(" + inner[:j] + ")"
				g.emit(fmt.Sprintf("MGET %s %s accept=ocii", repo, tok))
				if g.r.Intn(2) == 0 {
					g.emit(fmt.Sprintf("MDEL %s %s", repo, tok))
					g.emit(line)
				}
			}
		}
		// a client pushes the very bytes of the response document as an index of its own (a "twin"): tagged or by digest,
		// read, listed, deleted by tag and by digest; the referrers list is asked for again after each step
		if i := strings.Index(out, " body=["); i >= 0 && !strings.Contains(line, " at=") && !strings.Contains(out, "link=next(") && g.r.Intn(4) == 0 {
			inner := out[i+7:]
			if j := strings.Index(inner, "] ct="); j > 0 {
				g.twinSteps(repo, "R("+inner[:j]+")", line)
			}
		}
	}
}

// filterBurst: several artifacts of two artifact types on one subject, so that under a small response limit the filtered
// list itself needs more than one page while entries of the other type sit between its entries; then the filtered listing
// and its Link chain (the monitors follow the chain the registry hands out)
func (g *Gen) filterBurst(repo string) {
	sj := "sha256:?2"
	if len(g.subjects) > 0 && g.r.Intn(2) == 0 {
		sj = g.pick(g.subjects)
	}
	g.subjects = append(g.subjects, sj)
	g.emit("UPOST " + repo + " digest=sha256:c1 body=c1")
	k := 4 + g.r.Intn(4)
	for i := 0; i < k; i++ {
		at := []string{"x/a", "x/b"}[i%2]
		if g.r.Intn(5) == 0 {
			at = g.pick([]string{"x/a", "x/b", ""})
		}
		g.bodyN++
		name := g.defBody("image", []string{"mt=ocim", "cfg=sha256:c1", "cfgmt=" + g.pick([]string{"cfg", "empty"}), "layers=", "subj=" + sj, "at=" + at, "ann=n=" + strconv.Itoa(g.bodyN)})
		if out := g.emit(fmt.Sprintf("MPUT %s sha256:%s ct=ocim body=%s", repo, name, name)); strings.HasPrefix(out, "201 ") {
			g.manIn[repo] = append(g.manIn[repo], name)
			g.manMT[name] = "ocim"
		}
	}
	for _, at := range []string{g.pick([]string{"x/a", "x/b"}), g.pick([]string{"x/a", "x/b", "cfg", "empty"})} {
		line := fmt.Sprintf("REFS %s %s at=%s", repo, sj, at)
		out := g.emit(line)
		for hops := 0; hops < 6 && strings.Contains(out, "link=next(cache="); hops++ {
			rest := out[strings.Index(out, "link=next(cache=")+len("link=next(cache="):]
			cache := rest[:strings.Index(rest, ",page=")]
			page := rest[strings.Index(rest, ",page=")+6:]
			page = page[:strings.Index(page, ")")]
			lat := ""
			if i := strings.Index(page, ",at="); i >= 0 {
				lat, page = page[i+4:], page[:i]
			}
			l2 := fmt.Sprintf("REFS %s %s", repo, sj)
			if lat != "" { // the client follows the link as given
				l2 += " at=" + lat
			}
			out = g.emit(l2 + " cache=" + cache + " page=" + page)
		}
	}
	g.emit(fmt.Sprintf("REFS %s %s", repo, sj))
}

// twinSteps: the document `name` (a referrers response named by its structure) as a manifest of a client
func (g *Gen) twinSteps(repo, name, refsLine string) {
	def, ok := g.h.tk.twinDef(name)
	if !ok {
		return
	}
	if _, has := g.h.tk.defOf[name]; !has {
		g.emit(def)
	}
	g.twins = append(g.twins, name)
	ref := g.pick([]string{"tw", "tw", "t1", "sha256:" + name})
	if out := g.emit(fmt.Sprintf("MPUT %s %s ct=ocii body=%s", repo, ref, name)); strings.HasPrefix(out, "201 ") {
		g.manMT[name] = "ocii"
	}
	k := 2 + g.r.Intn(4)
	for i := 0; i < k; i++ {
		switch g.r.Intn(8) {
		case 0:
			g.emit(fmt.Sprintf("MDEL %s sha256:%s", repo, name))
		case 1:
			g.emit(fmt.Sprintf("MDEL %s %s", repo, g.pick([]string{"tw", "t1"})))
		case 2:
			g.emit(fmt.Sprintf("MGET %s %s accept=ocii", repo, g.pick([]string{"tw", "sha256:" + name})))
		case 3:
			g.emit("TAGS " + repo)
		case 4:
			g.emit(fmt.Sprintf("MPUT %s %s ct=ocii body=%s", repo, g.pick([]string{"tw", "tw2", "sha256:" + name}), name))
		case 5:
			if g.profile == "gc" {
				g.emit("GC " + repo)
			} else if len(g.manIn[repo]) > 0 { // the list moves on: the twin is then an ordinary index
				g.emit(fmt.Sprintf("MDEL %s sha256:%s", repo, g.pick(g.manIn[repo])))
			}
		default:
			g.emit(refsLine)
		}
	}
	g.emit(refsLine)
}

// twinFirst: a document known from an earlier history as a referrers response is pushed by a client before the registry
// builds it: its children are uploaded as plain blobs, the index is pushed under a tag, then the children are pushed as
// the artifacts they are, so that the registry arrives at a response with the bytes the client's index already has
func (g *Gen) twinFirst(repo string) {
	if len(g.twins) == 0 {
		return
	}
	name := g.pick(g.twins)
	bi := g.h.bodyInfo(name)
	if len(bi.refs) == 0 || len(bi.refs) > 3 {
		return
	}
	var kids []string
	for _, r := range bi.refs {
		if !strings.HasPrefix(r, "sha256:@") {
			return
		}
		kids = append(kids, strings.TrimPrefix(r, "sha256:"))
	}
	for _, c := range kids {
		g.emit("UPOST " + repo + " digest=sha256:" + c + " body=" + c)
	}
	g.emit(fmt.Sprintf("MPUT %s %s ct=ocii body=%s", repo, g.pick([]string{"tw", "sha256:" + name}), name))
	sj := ""
	for _, c := range kids {
		ci := g.h.bodyInfo(c)
		if ci.kind != "image" && ci.kind != "index" {
			continue
		}
		mt := ci.mtField
		if mt == "" {
			mt = "ocim"
		}
		for _, r := range ci.refs {
			if strings.HasPrefix(r, "sha256:") && r != "sha256:" && !strings.HasPrefix(r, "sha256:?") {
				g.emit("UPOST " + repo + " digest=" + r + " body=" + strings.TrimPrefix(r, "sha256:"))
			}
		}
		if out := g.emit(fmt.Sprintf("MPUT %s sha256:%s ct=%s body=%s", repo, c, mt, c)); strings.HasPrefix(out, "201 ") {
			g.manIn[repo] = append(g.manIn[repo], c)
			g.manMT[c] = mt
		}
		sj = ci.subj
	}
	if sj == "" {
		return
	}
	g.subjects = append(g.subjects, sj)
	refsLine := fmt.Sprintf("REFS %s %s", repo, sj)
	g.emit(refsLine)
	g.twinSteps(repo, name, refsLine)
}

// ---- raw profile: arbitrary methods and paths

func (g *Gen) rawStep() {
	methods := []string{"GET", "GET", "HEAD", "POST", "PUT", "PATCH", "DELETE", "OPTIONS", "FOO"}
	repos := []string{"r1", "r1/sub", "R1", "r1_", "r-1", "r1//x", "a__b", "a___b", "blobs", "r1/index.json", "-r", "r1/.", "r1/../r2", "%2e%2e", "r.1"}
	tails := []string{"/tags/list", "/manifests/t1", "/manifests/sha256:?3", "/manifests/bad:1", "/blobs/sha256:c1", "/blobs/bad:2", "/blobs/uploads", "/blobs/uploads/",
		"/blobs/uploads/xyz", "/referrers/sha256:?2", "/referrers/bad:1", "/tags", "/tags/list/x", "/manifests", "/unknown/x", "/manifests/t1/extra", ""}
	if g.r.Intn(6) == 0 {
		g.step()
		return
	}
	var path string
	switch g.r.Intn(10) {
	case 0:
		path = g.pick([]string{"/", "/v2", "/v2/", "/v1", "/v2/..", "/../v2/", "//v2//", "/v2/./", "", "/v3/r1/tags/list"})
	default:
		path = "/v2/" + g.pick(repos) + g.pick(tails)
		if g.r.Intn(10) == 0 {
			path += "/"
		}
	}
	// digest tokens inside raw paths are written as tokens and translated by the interpreter
	g.emit("RAW " + g.pick(methods) + " " + path)
}

// ---- isolation profile: the same contents and session ids used across repository names

// traversalIndex: a document whose child (or config) "digest" is a relative path; when it is acknowledged the child is
// asked for by a read that prefers the child's media type
func (g *Gen) traversalIndex(repo string) {
	bad := g.pick([]string{"bad:6", "bad:7"})
	var name, ct string
	if g.r.Intn(3) == 0 {
		ct = "ocim"
		name = g.defBody("image", []string{"mt=ocim", "cfg=" + bad, "cfgmt=cfg", "layers=", "subj=", "at=", "ann="})
	} else {
		ct = g.pick([]string{"ocii", "dockl"})
		name = g.defBody("index", []string{"mt=" + ct, "children=ocim/" + bad + "/13", "subj=", "at=", "ann="})
	}
	tag := g.pick([]string{"t1", "t2"})
	if out := g.emit(fmt.Sprintf("MPUT %s %s ct=%s body=%s", repo, tag, ct, name)); strings.HasPrefix(out, "201 ") {
		g.emit(fmt.Sprintf("MGET %s %s accept=ocim", repo, tag))
		g.emit(fmt.Sprintf("MGET %s %s accept=ocim,ocii,dockl", repo, tag))
	}
}

func (g *Gen) isolationStep(offs map[int]int, recv map[int]string) {
	repo := g.pick(g.repos)
	other := g.pick(g.repos)
	if g.r.Intn(14) == 0 {
		g.traversalIndex(g.pick([]string{"r1", "r1", "r2"}))
		return
	}
	if g.r.Intn(12) == 0 {
		// a collection of a repository that has nested neighbours; what they hold is read again afterwards
		g.emit("GC " + g.pick([]string{"r1", "r1", "r1/sub", "r2"}))
		n := g.pick([]string{"r1/index.json.d", "r1/blobs2", "r1/sub", "r1/sub/x", "r1/oci-layout2"})
		if len(g.blobsIn[n]) > 0 {
			g.emit("BGET " + n + " sha256:" + g.pick(g.blobsIn[n]))
		}
		g.emit("TAGS " + n)
		return
	}
	switch g.r.Intn(12) {
	case 0, 1:
		g.pushBlob(repo)
	case 2: // mount from another repository
		c := g.pick([]string{"c1", "c2", "l1", "zz", "~", "outsidesecret", "outsidesecret"})
		g.noteSession(g.emit("UPOST " + repo + " mount=sha256:" + c + " from=" + g.pick(append(append([]string{}, g.repos...), "../r1", "r1/../r2", "..", "r1/", "/r1",
			"../outside", "r1/../../outside", "a/../../outside", "r1/sub/../../../outside", "r2/../..//outside"))))
		if c == "outsidesecret" && g.r.Intn(2) == 0 {
			g.emit("BGET " + repo + " sha256:outsidesecret")
		}
	case 3: // read in another repository what was pushed here
		if len(g.blobsIn[repo]) > 0 {
			g.emit(g.pick([]string{"BGET", "BHEAD"}) + " " + other + " sha256:" + g.pick(g.blobsIn[repo]))
		}
	case 4:
		g.pushManifest(repo)
	case 5:
		if len(g.manIn[repo]) > 0 {
			g.emit(fmt.Sprintf("MGET %s sha256:%s accept=ocim,ocii,dockm,dockl", other, g.pick(g.manIn[repo])))
		} else {
			g.emit(fmt.Sprintf("MGET %s t1 accept=ocim,ocii,dockm,dockl", other))
		}
	case 6:
		g.noteSession(g.emit("UPOST " + repo))
	case 7: // a session id used against another repository
		sid := g.sessTok()
		g.emit("UPATCH " + other + " " + sid + " state=" + strconv.Itoa(offs[sessNum(sid)]) + " body=aa")
	case 8:
		sid := g.sessTok()
		g.emit(g.pick([]string{"UGET", "UDEL"}) + " " + other + " " + sid)
	case 9:
		g.emit("TAGS " + other)
	case 10:
		sj := "sha256:?2"
		if len(g.subjects) > 0 {
			sj = g.pick(g.subjects)
		}
		g.emit("REFS " + other + " " + sj)
	case 11:
		g.emit("BDEL " + other + " sha256:" + g.pick([]string{"c1", "c2", "l1"}))
	}
}
