//go:build !vfs

package main

import (
	"bufio"
	"fmt"
	"os"
)

// runCrash needs the FS shim (build tag vfs, go build -overlay); without it the mode is unavailable
func runCrash(h *H, mode string, seed, n int, impl *bufio.Writer) int {
	fmt.Fprintln(os.Stderr, "crash mode needs a binary built with -tags vfs and the FS shim overlay")
	return 2
}
