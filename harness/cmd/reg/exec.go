package main

// Interpreter of the line protocol on the real olareg.Server (in-process ServeHTTP).
import (
	"bytes"
	"encoding/base64"
	"encoding/json"
	"fmt"
	"io"
	"net/http"
	"net/http/httptest"
	"net/url"
	"os"
	"path/filepath"
	"regexp"
	"sort"
	"strconv"
	"strings"
	"time"

	"github.com/opencontainers/go-digest"

	"github.com/olareg/olareg"
	"github.com/olareg/olareg/config"
	"github.com/olareg/olareg/types"
)

func bp(b bool) *bool { return &b }

type Resp struct {
	Status int
	Code   string
	Loc    string
	Range  string
	Dcd    string
	Body   string
	Ct     string
	Subj   string
	Filt   string
	Link   string
	Cl     string
	CRange string
	// raw, for the monitors
	raw    []byte
	header http.Header
}

func (r Resp) line() string {
	return fmt.Sprintf("%d code=%s loc=%s range=%s dcd=%s body=%s ct=%s subj=%s filt=%s link=%s cl=%s crange=%s",
		r.Status, r.Code, r.Loc, r.Range, r.Dcd, r.Body, r.Ct, r.Subj, r.Filt, r.Link, r.Cl, r.CRange)
}

type H struct {
	tk       *Tokens
	srv      *olareg.Server
	conf     config.Config
	confToks []string
	root     string // directory of the dir / memdir store
	workDir  string
	sentinel string // directory that contains the root and an outside layout
	outside  []string
	histN    int
	sessN    map[string]int // real session id -> public number
	sessID   map[int]string // public number -> real id
	sessRepo map[int]string // public number -> repository it was created in
	mon      *Monitors
	lineNo   int
	curRepo  string // repository named by the line being interpreted (cause labels of the monitors)
	now      time.Time
}

var reSess = regexp.MustCompile(`^/v2/(.+)/blobs/uploads/([^/?]+)\?state=(.*)$`)
var reBlob = regexp.MustCompile(`^/v2/(.+)/(blobs|manifests)/([^/]+)$`)

func (h *H) canonLoc(loc string) string {
	if loc == "" {
		return ""
	}
	if m := reSess.FindStringSubmatch(loc); m != nil {
		n, ok := h.sessN[m[2]]
		if !ok {
			n = len(h.sessN) + 1
			h.sessN[m[2]] = n
			h.sessID[n] = m[2]
			h.sessRepo[n] = m[1]
		}
		st, _ := url.QueryUnescape(m[3])
		b, _ := base64.RawURLEncoding.DecodeString(st)
		var o struct{ Offset int }
		_ = json.Unmarshal(b, &o)
		return fmt.Sprintf("session:%s:s%d?state=%d", m[1], n, o.Offset)
	}
	if m := reBlob.FindStringSubmatch(loc); m != nil {
		kind := "blob"
		if m[2] == "manifests" {
			kind = "manifest"
		}
		return fmt.Sprintf("%s:%s:%s", kind, m[1], h.tk.tokDigest(m[3]))
	}
	return "?" + loc
}

func confInt(tk []string, k string) int {
	n, _ := strconv.Atoi(kv(tk, k))
	return n
}
func confBool(tk []string, k string, def bool) *bool {
	v := kv(tk, k)
	if v == "" {
		return bp(def)
	}
	return bp(v == "1")
}

// buildConf: NEW store=mem|dir|memdir ro= push= del= bdel= ref= mlimit= rlimit= upmax= grace= untagged= dangling= withsubj= emptyrepo=
func (h *H) buildConf(tk []string) config.Config {
	c := config.Config{
		Storage: config.ConfigStorage{
			ReadOnly: confBool(tk, "ro", false),
			GC: config.ConfigGC{Frequency: -1, GracePeriod: -1, RepoUploadMax: -1,
				Untagged: confBool(tk, "untagged", false), EmptyRepo: confBool(tk, "emptyrepo", true),
				ReferrersDangling: confBool(tk, "dangling", false), ReferrersWithSubj: confBool(tk, "withsubj", true)},
		},
		API: config.ConfigAPI{
			PushEnabled: confBool(tk, "push", true), DeleteEnabled: confBool(tk, "del", true),
			Blob:     config.ConfigAPIBlob{DeleteEnabled: confBool(tk, "bdel", true)},
			Referrer: config.ConfigAPIReferrer{Enabled: confBool(tk, "ref", true)},
		},
	}
	switch kv(tk, "store") {
	case "dir":
		c.Storage.StoreType = config.StoreDir
		c.Storage.RootDir = h.root
	case "memdir":
		c.Storage.StoreType = config.StoreMem
		c.Storage.RootDir = h.root
	default:
		c.Storage.StoreType = config.StoreMem
	}
	if n := confInt(tk, "mlimit"); n > 0 {
		c.API.Manifest.Limit = int64(n)
	}
	if n := confInt(tk, "rlimit"); n > 0 {
		c.API.Referrer.Limit = int64(n)
	}
	if n := confInt(tk, "upmax"); n > 0 {
		c.Storage.GC.RepoUploadMax = n
	}
	if g := kv(tk, "grace"); g != "" {
		n, _ := strconv.Atoi(g)
		if n >= 0 {
			c.Storage.GC.GracePeriod = time.Duration(n) * time.Second
		}
	}
	return c
}

func (h *H) closeServer() {
	if h.srv != nil {
		_ = h.srv.Close()
		h.srv = nil
	}
}

func (h *H) newHistory(tk []string) {
	if h.srv != nil {
		h.closeServer()
		h.mon.fsUnchanged(h)
	}
	if h.sentinel != "" {
		_ = os.RemoveAll(h.sentinel)
		h.sentinel = ""
	}
	if h.root != "" {
		_ = os.RemoveAll(h.root)
	}
	h.histN++
	h.root = ""
	st := kv(tk, "store")
	if st == "dir" || st == "memdir" {
		// the root sits inside a sentinel tree; next to it an OCI layout that no request may reach
		base := filepath.Join(h.workDir, fmt.Sprintf("root%d", h.histN))
		h.root = filepath.Join(base, "store")
		_ = os.MkdirAll(h.root, 0o755)
		h.makeOutside(filepath.Join(base, "outside"))
		h.sentinel = base
	}
	h.confToks = tk
	h.conf = h.buildConf(tk)
	h.srv = olareg.New(h.conf)
	h.sessN, h.sessID, h.sessRepo = map[string]int{}, map[int]string{}, map[int]string{}
	h.mon.reset(h)
	h.mon.fsBaseline(h)
}

func (h *H) restart(tk []string) {
	h.mon.fsUnchanged(h)
	if kv(h.confToks, "store") == "dir" && !*h.conf.Storage.ReadOnly {
		for repo := range h.mon.repos {
			if h.mon.routable(h, repo) {
				h.mon.preGC(h, repo)
				h.touchIndex(repo)
				_ = h.srv.VerifGC(repo)
				h.mon.gc(h, repo)
			}
		}
	}
	h.mon.beforeRestart(h)
	h.closeServer()
	h.mon.fsUnchanged(h) // what Close itself did to a protected directory (the configuration is still that of the closed server)
	merged := append([]string{}, h.confToks...)
	for _, t := range tk {
		k := strings.SplitN(t, "=", 2)[0]
		out := merged[:0]
		for _, m := range merged {
			if !strings.HasPrefix(m, k+"=") {
				out = append(out, m)
			}
		}
		merged = append(out, t)
	}
	h.confToks = merged
	h.conf = h.buildConf(merged)
	if kv(tk, "prep") == "1" {
		h.fsPrep()
	}
	h.srv = olareg.New(h.conf)
	h.mon.restarted(h)
	h.mon.fsBaseline(h)
	h.mon.afterRestart(h, len(tk) == 0)
	h.mon.fsUnchanged(h)
}

type reqOpt struct {
	query  url.Values
	hdr    map[string][]string
	body   []byte
	has    bool
	noLen  bool // unknown Content-Length
	mode   string
	remote string
}

func (h *H) do(method, path string, o reqOpt) Resp {
	u := path
	if len(o.query) > 0 {
		u += "?" + o.query.Encode()
	}
	var rdr io.Reader
	if o.has {
		rdr = bytes.NewReader(o.body)
		if o.noLen {
			rdr = struct{ io.Reader }{rdr} // hides the length from httptest.NewRequest
		}
	}
	var req *http.Request
	func() {
		defer func() {
			if r := recover(); r != nil {
				req = nil
			}
		}()
		req = httptest.NewRequest(method, u, rdr)
	}()
	if req == nil {
		return Resp{Status: 998}
	}
	if o.has && o.noLen {
		req.ContentLength = -1
	}
	for k, vs := range o.hdr {
		for _, v := range vs {
			req.Header.Add(k, v)
		}
	}
	if o.remote != "" {
		req.RemoteAddr = o.remote
	}
	rr := httptest.NewRecorder()
	panicked := false
	func() {
		defer func() {
			if r := recover(); r != nil {
				panicked = true
			}
		}()
		h.srv.ServeHTTP(rr, req)
	}()
	if panicked {
		return Resp{Status: 999, Body: "-"}
	}
	res := rr.Result()
	out := Resp{Status: res.StatusCode, Body: "-", raw: rr.Body.Bytes(), header: res.Header}
	if out.Status >= 400 {
		var e struct {
			Errors []struct{ Code string }
		}
		if json.Unmarshal(rr.Body.Bytes(), &e) == nil && len(e.Errors) > 0 {
			out.Code = e.Errors[0].Code
		}
	}
	out.Loc = h.canonLoc(res.Header.Get("Location"))
	out.Range = res.Header.Get("Range")
	out.Dcd = h.tk.tokDigest(res.Header.Get("Docker-Content-Digest"))
	out.Subj = h.tk.tokDigest(res.Header.Get("OCI-Subject"))
	out.Filt = res.Header.Get("OCI-Filters-Applied")
	if out.Status == 200 || out.Status == 206 {
		if o.mode == "get" || o.mode == "head" {
			out.Cl = res.Header.Get("Content-Length")
		}
		out.CRange = strings.ReplaceAll(res.Header.Get("Content-Range"), " ", "")
		switch o.mode {
		case "head":
			out.Body = "-"
			out.Ct = mtToken(res.Header.Get("Content-Type"))
		case "get":
			if out.Status == 206 {
				out.Body = "=" + h.sliceName(res.Header.Get("Docker-Content-Digest"), out.CRange, rr.Body.Bytes())
			} else {
				out.Body = "=" + h.tk.contentName(rr.Body.Bytes())
			}
			out.Ct = mtToken(res.Header.Get("Content-Type"))
		case "tags":
			var tl types.TagList
			_ = json.Unmarshal(rr.Body.Bytes(), &tl)
			out.Body = "[" + strings.Join(tl.Tags, ",") + "]"
			if method == "HEAD" {
				out.Body = "-"
			}
			if l := res.Header.Get("Link"); l != "" {
				if i := strings.Index(l, ">"); i > 1 {
					lu, err := url.Parse(l[1:i])
					if err == nil {
						out.Link = "next(last=" + lu.Query().Get("last") + ",n=" + lu.Query().Get("n") + ")"
					}
				}
			}
		case "refs":
			var idx types.Index
			_ = json.Unmarshal(rr.Body.Bytes(), &idx)
			out.Body = "[" + strings.Join(h.tk.descList(idx.Manifests), ",") + "]"
			if res.StatusCode == 200 && len(idx.Manifests) > 0 {
				_ = h.tk.contentName(rr.Body.Bytes()) // learn the name R(...) of a response document with these bytes
			}
			out.Ct = mtToken(res.Header.Get("Content-Type"))
			if l := res.Header.Get("Link"); l != "" {
				if i := strings.Index(l, ">"); i > 1 {
					lu, err := url.Parse(l[1:i])
					if err == nil {
						cd := lu.Query().Get("cache")
						if _, known := h.tk.tokOf[cd]; !known && strings.HasPrefix(path, "/v2/") {
							// learn the name of the response document the link refers to (a read, changes nothing)
							repoPath := path[:strings.Index(path, "/referrers/")]
							if g := h.do("GET", repoPath+"/blobs/"+cd, reqOpt{mode: "get"}); g.Status == 200 {
								_ = g
							}
						}
						out.Link = "next(cache=" + h.tk.tokDigest(cd) + ",page=" + lu.Query().Get("page") + ")"
						// the filter of the request travels with the link (the next page is a page of the filtered list)
						if at := lu.Query().Get("artifactType"); at != "" {
							if tk, ok := mtTok[at]; ok {
								at = tk
							}
							out.Link = strings.TrimSuffix(out.Link, ")") + ",at=" + at + ")"
						}
					}
				}
			}
		}
	}
	return out
}

// sliceName names a 206 body as <content>[lo-hi] after checking it against the full content known for the digest
func (h *H) sliceName(dcd, crange string, body []byte) string {
	tok := h.tk.tokDigest(dcd)
	p := strings.SplitN(tok, ":", 2)
	if len(p) != 2 {
		return "?unknown-digest"
	}
	full, ok := h.tk.rawOf[p[1]]
	if !ok {
		return "?unknown-content"
	}
	var lo, hi, size int
	if _, err := fmt.Sscanf(crange, "bytes%d-%d/%d", &lo, &hi, &size); err != nil {
		return "?bad-content-range"
	}
	if size == 0 && len(full) == 0 && len(body) == 0 {
		return p[1] + "[0--1]"
	}
	if size != len(full) || lo < 0 || hi >= len(full) || lo > hi || string(full[lo:hi+1]) != string(body) {
		return "?slice-mismatch"
	}
	return fmt.Sprintf("%s[%d-%d]", p[1], lo, hi)
}

// makeOutside writes a small OCI layout next to the root: nothing in it may ever be served or changed
func (h *H) makeOutside(dir string) {
	secret := []byte("outsidesecret")
	d := digest.FromBytes(secret)
	_ = os.MkdirAll(filepath.Join(dir, "blobs", "sha256"), 0o755)
	_ = os.WriteFile(filepath.Join(dir, "oci-layout"), []byte(`{"imageLayoutVersion":"1.0.0"}`), 0o644)
	_ = os.WriteFile(filepath.Join(dir, "index.json"), []byte(`{"schemaVersion":2,"manifests":[]}`), 0o644)
	_ = os.WriteFile(filepath.Join(dir, "blobs", "sha256", d.Encoded()), secret, 0o644)
	h.tk.reg("outsidesecret", secret)
	h.outside = fsSnapshot(dir)
}

// fsPrep: things a writable server may leave behind, put into the directory by hand before it is reopened read-only or
// under a memory store: an empty _uploads folder in an existing repository and a repository without content.
// No request addresses them; the protected directory must keep them as they are.
func (h *H) fsPrep() {
	if h.root == "" {
		return
	}
	if _, err := os.Stat(filepath.Join(h.root, "r1")); err == nil {
		_ = os.MkdirAll(filepath.Join(h.root, "r1", "_uploads"), 0o755)
	}
	e := filepath.Join(h.root, "rleft")
	_ = os.MkdirAll(filepath.Join(e, "blobs", "sha256"), 0o755)
	_ = os.MkdirAll(filepath.Join(e, "_uploads"), 0o755)
	_ = os.WriteFile(filepath.Join(e, "oci-layout"), []byte(`{"imageLayoutVersion":"1.0.0"}`), 0o644)
	_ = os.WriteFile(filepath.Join(e, "index.json"), []byte(`{"schemaVersion":2,"mediaType":"application/vnd.oci.image.index.v1+json","manifests":[]}`), 0o644)
}

// touchIndex makes index.json of a repository of the directory store look modified, so that the forced load at the
// start of a collection always replaces the cached index (the store revalidates by mtime; the model does not carry the clock)
func (h *H) touchIndex(repo string) {
	if kv(h.confToks, "store") != "dir" || h.root == "" || !h.mon.routable(h, repo) {
		return
	}
	p := filepath.Join(h.root, repo, "index.json")
	if fi, err := os.Stat(p); err == nil {
		t := fi.ModTime().Add(time.Millisecond)
		_ = os.Chtimes(p, t, t)
	}
}

func (h *H) refArg(ref string) string {
	if strings.Contains(ref, ":") {
		return h.tk.realDigest(ref)
	}
	return ref
}

func (h *H) sessReal(sid string) string {
	n, _ := strconv.Atoi(strings.TrimPrefix(sid, "s"))
	if id, ok := h.sessID[n]; ok {
		return id
	}
	return "unknown-session-" + sid
}

func stateParam(st string) (string, bool) {
	switch st {
	case "":
		return "", false
	case "junk":
		return "!!!not-base64", true
	case "junk2":
		return base64.RawURLEncoding.EncodeToString([]byte("not json")), true
	}
	n, err := strconv.Atoi(st)
	if err != nil {
		return st, true
	}
	b, _ := json.Marshal(map[string]int{"offset": n})
	return base64.RawURLEncoding.EncodeToString(b), true
}

// apply interprets one request line; returns the canonical answer and whether the line has an answer
func (h *H) apply(line string) (string, bool) {
	out, has := h.apply1(line)
	if has && h.srv != nil && !strings.HasPrefix(line, "DEF") && !strings.HasPrefix(line, "SNAP") {
		h.mon.layoutOK(h)
		h.mon.fsUnchanged(h)
		h.mon.generic(h, line, out)
	}
	return out, has
}

func (h *H) apply1(line string) (string, bool) {
	h.lineNo++
	t := strings.Fields(line)
	if len(t) == 0 {
		return "bad-op", true
	}
	op, a := t[0], t[1:]
	h.curRepo = ""
	if len(a) > 0 && op != "NEW" && op != "DEF" {
		h.curRepo = a[0]
	}
	if op != "NEW" && op != "DEF" && h.srv == nil {
		h.newHistory(nil)
	}
	switch op {
	case "NEW":
		h.newHistory(a)
		return "new", true
	case "RESTART":
		h.restart(a)
		return "restarted", true
	case "DEF":
		if len(a) < 2 {
			return "bad-op", true
		}
		if _, known := h.tk.rawOf[a[0]]; !(known && strings.HasPrefix(a[0], "R(")) { // a twin keeps the bytes of the response document
			raw := h.tk.buildBody(a[0], a[1], a[2:])
			if v := kv(a[2:], "raw"); v != "" {
				if b, err := base64.RawURLEncoding.DecodeString(v); err == nil {
					raw = b
				}
			}
			h.tk.reg(a[0], raw)
		}
		h.tk.defOf[a[0]] = line
		return "def", true
	case "UPOST":
		if len(a) < 1 {
			return "bad-op", true
		}
		q := url.Values{}
		if v := kv(a, "mount"); v != "" {
			q.Set("mount", h.tk.realDigest(v))
		}
		if v := kv(a, "from"); v != "" {
			q.Set("from", v)
		}
		if v := kv(a, "digest"); v != "" {
			q.Set("digest", h.tk.realDigest(v))
		}
		if v := kv(a, "algo"); v != "" {
			q.Set("digest-algorithm", v)
		}
		body := h.tk.content(kv(a, "body"))
		r := h.do("POST", "/v2/"+a[0]+"/blobs/uploads/", reqOpt{query: q, body: body, has: true})
		h.mon.uPost(h, a, r)
		return r.line(), true
	case "UPATCH", "UPUT":
		if len(a) < 2 {
			return "bad-op", true
		}
		q := url.Values{}
		if st, ok := stateParam(kv(a, "state")); ok {
			q.Set("state", st)
		}
		if v := kv(a, "digest"); v != "" {
			q.Set("digest", h.tk.realDigest(v))
		}
		hdr := map[string][]string{}
		if v := kv(a, "cr"); v != "" {
			hdr["Content-Range"] = []string{v}
		}
		body := h.tk.content(kv(a, "body"))
		method := "PATCH"
		if op == "UPUT" {
			method = "PUT"
		}
		r := h.do(method, "/v2/"+a[0]+"/blobs/uploads/"+h.sessReal(a[1]), reqOpt{query: q, hdr: hdr, body: body, has: true})
		h.mon.uWrite(h, op, a, r)
		return r.line(), true
	case "UGET":
		r := h.do("GET", "/v2/"+a[0]+"/blobs/uploads/"+h.sessReal(a[1]), reqOpt{})
		h.mon.uGet(h, a, r)
		return r.line(), true
	case "UDEL":
		r := h.do("DELETE", "/v2/"+a[0]+"/blobs/uploads/"+h.sessReal(a[1]), reqOpt{})
		h.mon.uDel(h, a, r)
		return r.line(), true
	case "BGET", "BHEAD":
		hdr := map[string][]string{}
		if v := kv(a[2:], "range"); v != "" {
			hdr["Range"] = []string{"bytes=" + v}
		}
		method, mode := "GET", "get"
		if op == "BHEAD" {
			method, mode = "HEAD", "head"
		}
		r := h.do(method, "/v2/"+a[0]+"/blobs/"+h.tk.realDigest(a[1]), reqOpt{hdr: hdr, mode: mode})
		h.mon.bGet(h, op, a, r)
		return r.line(), true
	case "BDEL":
		r := h.do("DELETE", "/v2/"+a[0]+"/blobs/"+h.tk.realDigest(a[1]), reqOpt{})
		h.mon.bDel(h, a, r)
		return r.line(), true
	case "MPUT":
		if len(a) < 2 {
			return "bad-op", true
		}
		q := url.Values{}
		if v := kv(a, "qd"); v != "" {
			q.Set("digest", h.tk.realDigest(v))
		}
		hdr := map[string][]string{}
		if ct := kv(a, "ct"); ct != "" {
			v := mtRealOf(ct)
			switch kv(a, "ctform") {
			case "param":
				v += "; charset=utf-8"
			case "upper":
				v = strings.ToUpper(v)
			// forms that a strict media type parser rejects; the base type before the first ';' is what counts
			case "dup":
				v += "; charset=utf-8; charset=ascii"
			case "semi":
				v += ";"
			case "space":
				v = " " + v + " ; x"
			case "badparam":
				v += "; =bad"
			}
			hdr["Content-Type"] = []string{v}
		}
		body := h.tk.content(kv(a, "body"))
		r := h.do("PUT", "/v2/"+a[0]+"/manifests/"+h.refArg(a[1]), reqOpt{query: q, hdr: hdr, body: body, has: true, noLen: kv(a, "len") == "unknown"})
		h.mon.mPut(h, a, r)
		return r.line(), true
	case "MGET", "MHEAD":
		hdr := map[string][]string{}
		acc := csv(kv(a, "accept"))
		switch kv(a, "accform") {
		case "joined", "bare":
			l := []string{}
			for _, x := range acc {
				l = append(l, mtRealOf(x))
			}
			sep := ", "
			if kv(a, "accform") == "bare" {
				sep = "," // a legal list without blanks after the commas
			}
			if len(l) > 0 {
				hdr["Accept"] = []string{strings.Join(l, sep)}
			}
		case "param":
			for _, x := range acc {
				hdr["Accept"] = append(hdr["Accept"], mtRealOf(x)+";q=0.9")
			}
		case "spaceparam":
			// optional whitespace around the semicolon of a parameter (RFC 9110), elements joined in one header
			l := []string{}
			for i, x := range acc {
				l = append(l, mtRealOf(x)+[]string{" ;q=0.9", "\t; q=0.5", " ; q=1.0"}[i%3])
			}
			if len(l) > 0 {
				hdr["Accept"] = []string{strings.Join(l, ", ")}
			}
		default:
			for _, x := range acc {
				hdr["Accept"] = append(hdr["Accept"], mtRealOf(x))
			}
		}
		if v := kv(a, "range"); v != "" {
			hdr["Range"] = []string{"bytes=" + v}
		}
		method, mode := "GET", "get"
		if op == "MHEAD" {
			method, mode = "HEAD", "head"
		}
		r := h.do(method, "/v2/"+a[0]+"/manifests/"+h.refArg(a[1]), reqOpt{hdr: hdr, mode: mode})
		h.mon.mGet(h, op, a, r)
		return r.line(), true
	case "MDEL":
		r := h.do("DELETE", "/v2/"+a[0]+"/manifests/"+h.refArg(a[1]), reqOpt{})
		h.mon.mDel(h, a, r)
		return r.line(), true
	case "TAGS":
		q := url.Values{}
		if hasKey(a, "n") {
			q.Set("n", kv(a, "n"))
		}
		if hasKey(a, "last") {
			q.Set("last", kv(a, "last"))
		}
		r := h.do("GET", "/v2/"+a[0]+"/tags/list", reqOpt{query: q, mode: "tags"})
		h.mon.tags(h, a, r)
		return r.line(), true
	case "REFS":
		q := url.Values{}
		if v := kv(a, "at"); v != "" {
			q.Set("artifactType", mtRealOf(v))
		}
		if v := kv(a, "cache"); v != "" {
			q.Set("cache", h.tk.realDigest(v))
		}
		if v := kv(a, "page"); v != "" {
			q.Set("page", v)
		}
		r := h.do("GET", "/v2/"+a[0]+"/referrers/"+h.tk.realDigest(a[1]), reqOpt{query: q, mode: "refs"})
		h.mon.refs(h, a, r)
		return r.line(), true
	case "RAW":
		// RAW <method> <path> [q=<rawquery>] : router fall-through
		if len(a) < 1 {
			return "bad-op", true
		}
		if len(a) < 2 {
			a = append(a, "")
		}
		// digest tokens inside the path are translated
		segs := strings.Split(a[1], "/")
		for i, sg := range segs {
			if strings.Contains(sg, ":") {
				segs[i] = h.tk.realDigest(sg)
			}
		}
		u := strings.Join(segs, "/")
		if u == "" {
			u = "/"
		}
		if q := kv(a, "q"); q != "" {
			u += "?" + q
		}
		r := h.do(a[0], u, reqOpt{})
		h.mon.raw(h, a, r)
		return fmt.Sprintf("%d code=%s", r.Status, r.Code), true
	case "GC":
		h.mon.beforeGC(h, a[0])
		h.touchIndex(a[0])
		err := h.srv.VerifGC(a[0])
		h.mon.gc(h, a[0])
		h.mon.afterGC(h, a[0])
		_ = err // a repository without a directory cannot be collected by the directory store; not an observable answer
		return "gc-ok", true
	case "SETTIME":
		// SETTIME <repo> <digest> old|recent
		tm := time.Now()
		if len(a) > 2 && a[2] == "old" {
			tm = tm.Add(-24 * time.Hour)
		}
		err := h.srv.VerifSetBlobTime(a[0], digest.Digest(h.tk.realDigest(a[1])), tm)
		if err != nil {
			return "settime-error", true
		}
		if h.mon.aged == nil {
			h.mon.aged = map[string]bool{}
		}
		h.mon.aged[a[0]+"|"+h.tk.realDigest(a[1])] = len(a) > 2 && a[2] == "old"
		return "settime-ok", true
	case "PRUNE":
		// PRUNE <repo> age|count : upload-session pruning as the timer / eviction goroutine would do it
		_ = h.srv.VerifUploadPrune(a[0], len(a) > 1 && a[1] == "age")
		h.mon.prune(h, a)
		return fmt.Sprintf("sessions=%d", h.srv.VerifUploadCount(a[0])), true
	case "SETUSED":
		// SETUSED <repo> <session> old
		ok := h.srv.VerifUploadSetUsed(a[0], h.sessReal(a[1]), time.Now().Add(-24*time.Hour))
		return fmt.Sprintf("setused=%v", ok), true
	case "SNAP":
		return h.snap(), true
	case "EXPIRY":
		// EXPIRY <ms> <dir|mem> <cancel|complete>
		if len(a) == 3 {
			ms, _ := strconv.Atoi(a[0])
			h.expiryProbe(time.Duration(ms)*time.Millisecond, a[1], a[2])
		}
		return "ok", true
	}
	return "bad-op", true
}

// expiryProbe (C08, "ceases to exist after expiry ... no temporary file remains") with the real timer on a server of
// its own: a first session is cancelled or completed, which empties the session cache of the repository; a second one
// receives a chunk and is abandoned.  Lateness is not judged: the session must be gone - with its temporary file - after 4x, 40x or else 150x the grace.
func (h *H) expiryProbe(grace time.Duration, storeKind, how string) {
	conf := config.Config{
		Storage: config.ConfigStorage{StoreType: config.StoreMem, GC: config.ConfigGC{Frequency: -1, GracePeriod: grace}},
	}
	root := ""
	if storeKind == "dir" {
		root = filepath.Join(h.workDir, fmt.Sprintf("expiry%d", h.lineNo))
		_ = os.MkdirAll(root, 0o755)
		defer os.RemoveAll(root)
		conf.Storage.StoreType, conf.Storage.RootDir = config.StoreDir, root
	}
	srv := olareg.New(conf)
	defer srv.Close()
	do := func(method, path string, body []byte, hdr map[string]string) *httptest.ResponseRecorder {
		var rdr io.Reader
		if body != nil {
			rdr = bytes.NewReader(body)
		}
		req := httptest.NewRequest(method, path, rdr)
		for k, v := range hdr {
			req.Header.Set(k, v)
		}
		w := httptest.NewRecorder()
		srv.ServeHTTP(w, req)
		return w
	}
	r1 := do("POST", "/v2/r1/blobs/uploads/", nil, nil)
	loc1 := r1.Header().Get("Location")
	if r1.Code != 202 || loc1 == "" {
		return
	}
	if how == "complete" {
		d := digest.FromString("abc")
		sep := "?"
		if strings.Contains(loc1, "?") {
			sep = "&"
		}
		do("PUT", loc1+sep+"digest="+d.String(), []byte("abc"), map[string]string{"Content-Type": "application/octet-stream"})
	} else {
		do("DELETE", loc1, nil, nil)
	}
	r2 := do("POST", "/v2/r1/blobs/uploads/", nil, nil)
	loc2 := r2.Header().Get("Location")
	if r2.Code != 202 || loc2 == "" {
		return
	}
	p := do("PATCH", loc2, []byte("partial"), map[string]string{"Content-Type": "application/octet-stream", "Content-Range": "0-6"})
	if p.Code != 202 {
		return
	}
	if l := p.Header().Get("Location"); l != "" {
		loc2 = l
	}
	alive := func() bool { return do("GET", loc2, nil, nil).Code == 204 }
	gone := false
	for _, k := range []int{4, 40, 150} {
		time.Sleep(time.Duration(k) * grace)
		if !alive() {
			gone = true
			break
		}
	}
	if !gone {
		h.mon.flag(h, "C08.gone-after.expiry", fmt.Sprintf("real timer (%s store, first session %s): an abandoned session still answers its status query %v after it was last used (grace %v)", storeKind, how, 150*grace, grace))
		return
	}
	if root != "" {
		if es, _ := os.ReadDir(filepath.Join(root, "r1", "_uploads")); len(es) > 0 {
			h.mon.flag(h, "C08.temp-left", fmt.Sprintf("real timer: %d temporary file(s) left after the session expired", len(es)))
		}
	}
}

// snap is a canonical listing of the store directory: path kind size content
func (h *H) snap() string {
	if h.root == "" {
		return "snap:-"
	}
	var out []string
	tmpN := 0
	_ = filepath.Walk(h.root, func(p string, info os.FileInfo, err error) error {
		if err != nil || p == h.root {
			return nil
		}
		rel, _ := filepath.Rel(h.root, p)
		if info.IsDir() {
			out = append(out, rel+"/")
			return nil
		}
		b, _ := os.ReadFile(p)
		name := rel
		parts := strings.Split(rel, "/")
		base := parts[len(parts)-1]
		if strings.HasPrefix(base, "upload.") || strings.HasPrefix(base, "index.json.") {
			tmpN++
			name = strings.Join(parts[:len(parts)-1], "/") + "/" + strings.SplitN(base, ".", 2)[0] + ".#"
		}
		content := ""
		switch {
		case base == "index.json":
			var idx types.Index
			if json.Unmarshal(b, &idx) == nil {
				es := []string{}
				for _, d := range idx.Manifests {
					es = append(es, fmt.Sprintf("%s/%s/%d/%s", h.tk.tokDigest(d.Digest.String()), mtToken(d.MediaType), d.Size, annCanonIdx(d.Annotations)))
				}
				content = "index[" + strings.Join(es, ",") + "]conv=" + idx.Annotations[types.AnnotReferrerConvert]
			} else {
				content = "unparsable"
			}
		case base == "oci-layout":
			content = strings.TrimSpace(string(b))
		default:
			if len(parts) >= 3 && parts[len(parts)-3] == "blobs" {
				d := digest.Algorithm(parts[len(parts)-2]).FromBytes(b)
				content = h.tk.contentName(b)
				if d.Encoded() != base {
					content += "!HASH-MISMATCH"
				}
				name = strings.Join(parts[:len(parts)-1], "/") + "/" + h.tk.tokDigest(parts[len(parts)-2]+":"+base)
			} else {
				content = fmt.Sprintf("%dbytes", len(b))
			}
		}
		out = append(out, name+"="+content)
		return nil
	})
	sort.Strings(out)
	return "snap:" + strings.Join(out, " ")
}

func annCanonIdx(a map[string]string) string {
	ks := []string{}
	for k, v := range a {
		switch k {
		case types.AnnotRefName:
			ks = append(ks, "tag="+v)
		case types.AnnotReferrerSubject:
			ks = append(ks, "subj="+v[:10])
		default:
			ks = append(ks, k+"="+v)
		}
	}
	sort.Strings(ks)
	return strings.Join(ks, ";")
}
