//go:build !sched

package main

import (
	"bufio"
	"fmt"
	"os"
)

// runConc needs the scheduler hook (build tag sched, go build -overlay); without it the mode is unavailable
func runConc(h *H, mode string, seed, n int, impl *bufio.Writer) int {
	fmt.Fprintln(os.Stderr, "conc mode needs a binary built with -tags sched and the scheduler overlay")
	return 2
}
