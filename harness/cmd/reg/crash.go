//go:build vfs

package main

// Crash-point enumeration on the directory store (property C09).
//
// The binary is built with the FS shim overlay (package verifvfs replaces `os` in internal/store/dir.go).  For every
// request line of a history the shim's hook copies the store directory right before each mutating file-system call
// and in the middle of each write: in a process-crash model each copy is what a restarted server would find.  After
// the request, a *fresh* olareg.New is opened on every distinct copy and the monitors of C09 are evaluated:
//
//	C09.load-error    a repository no longer loads (index.json unparsable, or a read answers 5xx / panics)
//	C09.blob-torn     a file blobs/<alg>/<hex> whose content does not hash to its name
//	C09.tag-dangling  a tag in the recovered index.json whose manifest blob is missing or torn (and was not before)
//	C09.ack-lost      something in effect both before and after the interrupted request is not in effect after the crash
//	                  (or something deleted before and after is back)
//	C09.not-atomic    tags/manifests/referrers of the addressed repository are neither the before- nor the after-state
//	                  (cause suffixes: .referrers-after-manifest, .referrers-before-delete)
//
// "before" and "after" are observed the same way (fresh server on a copy of the directory taken before / after the
// request), so that differences caused by a restart alone (property C10) are not attributed to the crash.
//
// Every request line is answered in VERIF_IMPL by `st=<status> fsops=[...]`, the canonical trace of mutating FS calls,
// and in VERIF_FACTS by the request annotated with the facts the Lean model (Drivers/FsMain.lean) needs to print the
// op list it expects.
import (
	"bufio"
	"bytes"
	"crypto/sha256"
	"encoding/hex"
	"encoding/json"
	"fmt"
	"io"
	"math/rand"
	"net/http"
	"net/http/httptest"
	"os"
	"path/filepath"
	"sort"
	"strconv"
	"strings"
	"syscall"

	"github.com/opencontainers/go-digest"

	"github.com/olareg/olareg"
	"github.com/olareg/olareg/types"
	"github.com/olareg/olareg/verifvfs"
)

type crashSnap struct {
	pt  verifvfs.Point
	dir string
}

type crashStats struct {
	Histories     int            `json:"histories"`
	Requests      int            `json:"requests"`
	Mutating      int            `json:"mutating_requests"`
	FsOps         int            `json:"fs_ops"`
	Points        int            `json:"crash_points"`
	MidPoints     int            `json:"crash_points_mid_write"`
	Recovered     int            `json:"snapshots_recovered"`
	SameAsBefore  int            `json:"snapshots_equal_before"`
	SameAsAfter   int            `json:"snapshots_equal_after"`
	Duplicate     int            `json:"snapshots_duplicate"`
	ObsRequests   int            `json:"observation_requests"`
	NotJudged     int            `json:"not_judged_restores_named_blob"`
	Probes        int            `json:"continuation_probes"`
	ProbesInit    int            `json:"continuation_probes_inside_repo_init"`
	Monitors      map[string]int `json:"monitor_hits"`
	Kinds         map[string]int `json:"points_by_call"`
	RecoveredKind map[string]int `json:"recovered_by_request_kind"`
}

type Crash struct {
	h        *H
	impl     *bufio.Writer
	facts    *bufio.Writer
	snapRoot string
	pristine string // copy of the root as it was before the current request (never opened by a server)
	seq      int
	snaps    []crashSnap
	st       crashStats
	tagsSeen map[string]map[string]bool
	subjSeen map[string]map[string]bool
	cuts     string
	initEnd  int // index of the last call of the repository initialisation within the current request (-1: none)
}

// ---------------------------------------------------------------- directory copies

func copyTree(src, dst string) error {
	return filepath.Walk(src, func(p string, info os.FileInfo, err error) error {
		if err != nil {
			return nil // a file may disappear while a request is running; the copy is of what is there
		}
		rel, _ := filepath.Rel(src, p)
		t := filepath.Join(dst, rel)
		if info.IsDir() {
			return os.MkdirAll(t, 0o755)
		}
		b, err := os.ReadFile(p)
		if err != nil {
			return nil
		}
		if err := os.WriteFile(t, b, 0o644); err != nil {
			return err
		}
		_ = os.Chtimes(t, info.ModTime(), info.ModTime())
		return nil
	})
}

// treeHash identifies the state of a directory: names, kinds and file contents (not times)
func treeHash(root string) string {
	hs := sha256.New()
	_ = filepath.Walk(root, func(p string, info os.FileInfo, err error) error {
		if err != nil {
			return nil
		}
		rel, _ := filepath.Rel(root, p)
		if info.IsDir() {
			fmt.Fprintf(hs, "D %s\n", rel)
			return nil
		}
		b, _ := os.ReadFile(p)
		fmt.Fprintf(hs, "F %s %d %x\n", rel, len(b), sha256.Sum256(b))
		return nil
	})
	return hex.EncodeToString(hs.Sum(nil))
}

// ---------------------------------------------------------------- observation through a fresh server

type repoObs struct {
	errs   []string
	tags   map[string]string // tag -> digest token it resolves to, or "!<status>" when listed but not resolvable
	mans   map[string]bool   // digest token -> GET manifests/<digest> is 200
	blobs  map[string]bool   // digest token -> HEAD blobs/<digest> is 200
	refs   map[string][]string
	listed []string
}

func (o *repoObs) key() string {
	var l []string
	for t, d := range o.tags {
		l = append(l, "TAG "+t+" -> "+d)
	}
	for d, ok := range o.mans {
		if ok {
			l = append(l, "MAN "+d)
		}
	}
	for s, r := range o.refs {
		if len(r) > 0 {
			l = append(l, "REFS "+s+" -> "+strings.Join(r, ","))
		}
	}
	sort.Strings(l)
	return strings.Join(l, "\n")
}

type universe struct {
	repos []string
	digs  map[string][]string // repo -> real digests
	subjs map[string][]string
	tags  map[string][]string
}

func (c *Crash) serve(srv *olareg.Server, method, path string, hdr map[string][]string) (int, http.Header, []byte) {
	return c.serveBody(srv, method, path, hdr, nil)
}

func (c *Crash) serveBody(srv *olareg.Server, method, path string, hdr map[string][]string, reqBody []byte) (int, http.Header, []byte) {
	var rdr io.Reader
	if reqBody != nil {
		rdr = bytes.NewReader(reqBody)
	}
	req := httptest.NewRequest(method, path, rdr)
	for k, vs := range hdr {
		for _, v := range vs {
			req.Header.Add(k, v)
		}
	}
	rr := httptest.NewRecorder()
	status := 0
	func() {
		defer func() {
			if r := recover(); r != nil {
				status = 999
			}
		}()
		srv.ServeHTTP(rr, req)
	}()
	c.st.ObsRequests++
	if status == 999 {
		return 999, http.Header{}, nil
	}
	res := rr.Result()
	return res.StatusCode, res.Header, rr.Body.Bytes()
}

var accAll = map[string][]string{"Accept": {types.MediaTypeOCI1Manifest, types.MediaTypeOCI1ManifestList, types.MediaTypeDocker2Manifest, types.MediaTypeDocker2ManifestList}}

// observeDir opens a fresh server on dir (which it may modify: the directory is a throw-away copy) and reads the
// surface of every repository of the universe
func (c *Crash) observeDir(dir string, u *universe) map[string]*repoObs {
	verifvfs.Pause(true)
	defer verifvfs.Pause(false)
	srv := c.openSrv(dir)
	out := c.observeSrv(srv, u)
	_ = srv.Close()
	return out
}

// openSrv: a fresh server with the configuration of the history on another directory
func (c *Crash) openSrv(dir string) *olareg.Server {
	conf := c.h.buildConf(c.h.confToks)
	conf.Storage.RootDir = dir
	return olareg.New(conf)
}

func (c *Crash) observeSrv(srv *olareg.Server, u *universe) map[string]*repoObs {
	h := c.h
	out := map[string]*repoObs{}
	for _, repo := range u.repos {
		o := &repoObs{tags: map[string]string{}, mans: map[string]bool{}, blobs: map[string]bool{}, refs: map[string][]string{}}
		out[repo] = o
		bad := func(what string, st int) {
			if st >= 500 {
				o.errs = append(o.errs, fmt.Sprintf("%s answered %d", what, st))
			}
		}
		st, _, body := c.serve(srv, "GET", "/v2/"+repo+"/tags/list", nil)
		bad("tags/list", st)
		tagSet := map[string]bool{}
		if st == 200 {
			var tl types.TagList
			if err := json.Unmarshal(body, &tl); err != nil {
				o.errs = append(o.errs, "tags/list body does not parse")
			}
			o.listed = tl.Tags
			for _, t := range tl.Tags {
				tagSet[t] = true
			}
		}
		for _, t := range u.tags[repo] {
			tagSet[t] = true
		}
		for t := range tagSet {
			st, hd, body := c.serve(srv, "GET", "/v2/"+repo+"/manifests/"+t, accAll)
			bad("GET manifests/"+t, st)
			switch {
			case st == 200:
				d := hd.Get("Docker-Content-Digest")
				if dd := digest.Digest(d); dd.Validate() != nil || dd.Algorithm().FromBytes(body).String() != d {
					o.errs = append(o.errs, fmt.Sprintf("tag %s serves a body that does not hash to %s", t, h.tk.tokDigest(d)))
				}
				o.tags[t] = h.tk.tokDigest(d)
			case inList(o.listed, t):
				o.tags[t] = fmt.Sprintf("!%d", st)
			}
		}
		for _, d := range u.digs[repo] {
			tok := h.tk.tokDigest(d)
			st, _, _ := c.serve(srv, "HEAD", "/v2/"+repo+"/blobs/"+d, nil)
			bad("HEAD blobs/"+tok, st)
			o.blobs[tok] = st == 200
			st, _, body := c.serve(srv, "GET", "/v2/"+repo+"/manifests/"+d, accAll)
			bad("GET manifests/"+tok, st)
			o.mans[tok] = st == 200
			if st == 200 && digest.Digest(d).Algorithm().FromBytes(body).String() != d {
				o.errs = append(o.errs, fmt.Sprintf("manifest %s serves a body that does not hash to it", tok))
			}
		}
		if *h.conf.API.Referrer.Enabled {
			for _, s := range u.subjs[repo] {
				st, _, body := c.serve(srv, "GET", "/v2/"+repo+"/referrers/"+s, nil)
				bad("GET referrers/"+h.tk.tokDigest(s), st)
				if st == 200 {
					var idx types.Index
					if err := json.Unmarshal(body, &idx); err != nil {
						o.errs = append(o.errs, "referrers body does not parse")
						continue
					}
					l := h.tk.descList(idx.Manifests)
					sort.Strings(l)
					o.refs[h.tk.tokDigest(s)] = l
				}
			}
		}
	}
	return out
}

func inList(l []string, x string) bool {
	for _, y := range l {
		if x == y {
			return true
		}
	}
	return false
}

func (c *Crash) universe(extraRepo string) *universe {
	h := c.h
	u := &universe{digs: map[string][]string{}, subjs: map[string][]string{}, tags: map[string][]string{}}
	repos := map[string]bool{}
	if extraRepo != "" && h.mon.routable(h, extraRepo) {
		repos[extraRepo] = true
	}
	for r := range h.mon.repos {
		if h.mon.routable(h, r) {
			repos[r] = true
		}
	}
	for r := range repos {
		u.repos = append(u.repos, r)
	}
	sort.Strings(u.repos)
	for _, r := range u.repos {
		rs := h.mon.repo(r)
		ds := map[string]bool{}
		for d := range rs.blobs {
			ds[d] = true
		}
		for d, ms := range rs.mans {
			ds[d] = true
			if ms.subject != "" {
				c.note(c.subjSeen, r, ms.subject)
			}
		}
		for d := range h.mon.everSeen[r] {
			ds[d] = true
		}
		for t := range rs.tags {
			c.note(c.tagsSeen, r, t)
		}
		ss := map[string]bool{}
		for d := range ds {
			if digest.Digest(d).Validate() == nil {
				u.digs[r] = append(u.digs[r], d)
				ss[d] = true
			}
		}
		for s := range c.subjSeen[r] {
			if digest.Digest(s).Validate() == nil {
				ss[s] = true
			}
		}
		for s := range ss {
			u.subjs[r] = append(u.subjs[r], s)
		}
		for t := range c.tagsSeen[r] {
			u.tags[r] = append(u.tags[r], t)
		}
		sort.Strings(u.digs[r])
		sort.Strings(u.subjs[r])
		sort.Strings(u.tags[r])
	}
	return u
}

func (c *Crash) note(m map[string]map[string]bool, repo, x string) {
	if m[repo] == nil {
		m[repo] = map[string]bool{}
	}
	m[repo][x] = true
}

// ---------------------------------------------------------------- disk-level checks on a pristine copy

type diskIssue struct{ kind, key, detail string }

// diskCheck walks a copy of the root: unparsable index.json, torn blobs, tags whose blob is missing or torn
func (c *Crash) diskCheck(root string) []diskIssue {
	var out []diskIssue
	_ = filepath.Walk(root, func(p string, info os.FileInfo, err error) error {
		if err != nil || !info.IsDir() {
			return nil
		}
		base := filepath.Base(p)
		if base == "blobs" || base == "_uploads" {
			return filepath.SkipDir
		}
		rel, _ := filepath.Rel(root, p)
		// blobs of this repository
		torn := map[string]bool{}
		algs, _ := os.ReadDir(filepath.Join(p, "blobs"))
		for _, a := range algs {
			if !a.IsDir() {
				continue
			}
			alg := digest.Algorithm(a.Name())
			es, _ := os.ReadDir(filepath.Join(p, "blobs", a.Name()))
			for _, e := range es {
				b, err := os.ReadFile(filepath.Join(p, "blobs", a.Name(), e.Name()))
				if err != nil {
					continue
				}
				if !alg.Available() || alg.FromBytes(b).Encoded() != e.Name() {
					torn[a.Name()+":"+e.Name()] = true
					out = append(out, diskIssue{"C09.blob-torn", rel + " " + a.Name() + ":" + e.Name(),
						fmt.Sprintf("%s: blobs/%s/%s (%d bytes) does not hash to its name", rel, a.Name(), e.Name()[:12], len(b))})
				}
			}
		}
		ib, err := os.ReadFile(filepath.Join(p, "index.json"))
		if err != nil {
			return nil
		}
		var idx types.Index
		if json.Unmarshal(ib, &idx) != nil {
			out = append(out, diskIssue{"C09.load-error", rel + " index.json", fmt.Sprintf("%s: index.json (%d bytes) does not parse", rel, len(ib))})
			return nil
		}
		for _, d := range idx.Manifests {
			t := d.Annotations[types.AnnotRefName]
			if t == "" || d.Digest.Validate() != nil {
				continue
			}
			_, err := os.Stat(filepath.Join(p, "blobs", d.Digest.Algorithm().String(), d.Digest.Encoded()))
			if err != nil || torn[d.Digest.Algorithm().String()+":"+d.Digest.Encoded()] {
				why := "missing"
				if err == nil {
					why = "torn"
				}
				out = append(out, diskIssue{"C09.tag-dangling", rel + " " + t + " " + d.Digest.String(),
					fmt.Sprintf("%s: tag %s -> %s in index.json, the manifest blob is %s", rel, t, c.h.tk.tokDigest(d.Digest.String()), why)})
			}
		}
		return nil
	})
	return out
}

// ---------------------------------------------------------------- facts about the state before a request

type diskFacts struct {
	D, L, I, U bool
	ann        string // "1" index.json carries the converted annotation, "0" it does not, "-" no (parsable) index.json
	nent       int
	algDir     map[string]bool
	nblob      map[string]int
	sub        bool // the repository directory holds other entries (sub-repositories, stray files)
	upFiles    int
	idx        types.Index
	blobs      map[string]bool // "<alg>:<hex>" present
}

func readDiskFacts(root, repo string) diskFacts {
	f := diskFacts{ann: "-", algDir: map[string]bool{}, nblob: map[string]int{}, blobs: map[string]bool{}}
	dir := filepath.Join(root, repo)
	fi, err := os.Stat(dir)
	f.D = err == nil && fi.IsDir()
	if !f.D {
		return f
	}
	if b, err := os.ReadFile(filepath.Join(dir, "oci-layout")); err == nil {
		var l types.Layout
		f.L = json.Unmarshal(b, &l) == nil && l.Version == types.LayoutVersion
	}
	if fi, err := os.Stat(filepath.Join(dir, "index.json")); err == nil && !fi.IsDir() {
		f.I = true
		if b, err := os.ReadFile(filepath.Join(dir, "index.json")); err == nil && json.Unmarshal(b, &f.idx) == nil {
			f.ann = "0"
			if f.idx.Annotations[types.AnnotReferrerConvert] == "true" {
				f.ann = "1"
			}
			f.nent = len(f.idx.Manifests)
		}
	}
	if fi, err := os.Stat(filepath.Join(dir, "_uploads")); err == nil && fi.IsDir() {
		f.U = true
		es, _ := os.ReadDir(filepath.Join(dir, "_uploads"))
		f.upFiles = len(es)
	}
	es, _ := os.ReadDir(dir)
	for _, e := range es {
		switch n := e.Name(); {
		case n == "blobs" || n == "_uploads" || n == "index.json" || n == "oci-layout":
		default:
			f.sub = true
		}
	}
	as, _ := os.ReadDir(filepath.Join(dir, "blobs"))
	for _, a := range as {
		if !a.IsDir() {
			continue
		}
		f.algDir[a.Name()] = true
		bs, _ := os.ReadDir(filepath.Join(dir, "blobs", a.Name()))
		f.nblob[a.Name()] = len(bs)
		for _, b := range bs {
			f.blobs[a.Name()+":"+b.Name()] = true
		}
	}
	return f
}

func inode(p string) uint64 {
	fi, err := os.Stat(p)
	if err != nil {
		return 0
	}
	if st, ok := fi.Sys().(*syscall.Stat_t); ok {
		return st.Ino
	}
	return 0
}

func b01(b bool) string {
	if b {
		return "1"
	}
	return "0"
}

// ---------------------------------------------------------------- one request line

var crashPlain = map[string]bool{"RESTART": true, "SNAP": true, "SETTIME": true, "PRUNE": true, "SETUSED": true, "RAW": true}

func (c *Crash) emit(out, facts string) string {
	fmt.Fprintln(c.impl, out)
	fmt.Fprintln(c.facts, facts)
	return out
}

func (c *Crash) flag(name, detail string) {
	c.st.Monitors[name]++
	c.h.mon.flag(c.h, name, detail)
}

// apply runs one line with crash-point enumeration; returns the http-level answer (for the generator)
func (c *Crash) apply(line string) string {
	h := c.h
	t := strings.Fields(line)
	if len(t) == 0 {
		out, _ := h.apply(line)
		c.emit(out, "PLAIN")
		return out
	}
	op := t[0]
	switch {
	case op == "NEW":
		// crash histories run on the directory store
		if kv(t[1:], "store") != "dir" {
			line = "NEW store=dir " + strings.Join(t[1:], " ")
		}
		verifvfs.SetHook(nil)
		out, _ := h.apply(line)
		verifvfs.SetRoot(h.root)
		if c.pristine != "" {
			_ = os.RemoveAll(c.pristine)
			c.pristine = ""
		}
		c.tagsSeen, c.subjSeen = map[string]map[string]bool{}, map[string]map[string]bool{}
		c.st.Histories++
		c.emit(out, "NEW")
		return out
	case op == "DEF":
		out, _ := h.apply(line)
		c.emit(out, "DEF")
		return out
	case crashPlain[op] || len(t) < 2:
		out, _ := h.apply(line)
		verifvfs.Drain()
		if c.pristine != "" {
			_ = os.RemoveAll(c.pristine)
			c.pristine = ""
		}
		c.emit("plain", "PLAIN")
		return out
	}
	if h.srv == nil {
		h.apply("NEW store=dir")
		verifvfs.SetRoot(h.root)
	}
	repo := t[1]
	c.st.Requests++
	c.seq++
	// ---- state before
	verifvfs.Pause(true)
	if c.pristine == "" {
		c.pristine = filepath.Join(c.snapRoot, fmt.Sprintf("pre%d", c.seq))
		_ = copyTree(h.root, c.pristine)
	}
	pre := c.pristine
	df := readDiskFacts(h.root, repo)
	mex, mconv, mok := false, false, false
	nsess := 0
	if h.mon.routable(h, repo) {
		mex, mconv, _, mok = h.srv.VerifDirState(repo)
		nsess = h.srv.VerifUploadCount(repo)
	}
	known := map[string]bool{}
	if op == "GC" && h.mon.routable(h, repo) {
		var ds []string
		for d := range df.blobs {
			ds = append(ds, d)
		}
		for i, k := range h.srv.VerifIndexKnows(repo, ds) {
			known[ds[i]] = k
		}
	}
	var sessBefore *sessShadow
	if op == "UPATCH" || op == "UPUT" || op == "UDEL" {
		if ss := h.mon.sess[sessNum(t[2])]; ss != nil {
			cp := *ss
			sessBefore = &cp
		}
	}
	manBefore := map[string]*manShadow{}
	for d, ms := range h.mon.repo(repo).mans {
		cp := *ms
		manBefore[d] = &cp
	}
	verifvfs.Pause(false)
	verifvfs.Drain()
	// ---- run with the hook
	c.snaps = nil
	verifvfs.SetHook(func(pt verifvfs.Point) {
		dst := filepath.Join(c.snapRoot, fmt.Sprintf("q%d_%d", c.seq, len(c.snaps)))
		_ = copyTree(h.root, dst)
		c.snaps = append(c.snaps, crashSnap{pt, dst})
	})
	lineNo := h.lineNo + 1
	inoBefore := inode(filepath.Join(h.root, repo, "index.json"))
	var out string
	var raw []string
	if op == "GC" {
		// one collection under the hook; the line itself (the maintainers' monitors run further passes) afterwards, unobserved
		_ = h.srv.VerifGC(repo)
		verifvfs.SetHook(nil)
		raw = verifvfs.Drain()
		verifvfs.Pause(true)
	}
	inoAfter := inode(filepath.Join(h.root, repo, "index.json"))
	if op != "GC" {
		out, _ = h.apply(line)
		verifvfs.SetHook(nil)
		raw = verifvfs.Drain()
		verifvfs.Pause(true)
		inoAfter = inode(filepath.Join(h.root, repo, "index.json"))
	}
	// ---- state after
	post := filepath.Join(c.snapRoot, fmt.Sprintf("pre%d", c.seq+1))
	_ = copyTree(h.root, post)
	dfA := readDiskFacts(h.root, repo)
	nmanA := 0
	if h.mon.routable(h, repo) {
		_, _, nmanA, _ = h.srv.VerifDirState(repo)
	}
	if op == "GC" {
		out, _ = h.apply(line)
		verifvfs.Drain()
	}
	verifvfs.Pause(false)
	status := strings.SplitN(out, " ", 2)[0]
	code := ""
	if i := strings.Index(out, " code="); i >= 0 {
		code = strings.SplitN(out[i+6:], " ", 2)[0]
	}
	c.initEnd = repoInitEnd(raw, repo, df)
	roles := c.roles(op, t[1:], repo, raw, pre, post)
	trace := canonTrace(raw, roles)
	c.st.FsOps += len(raw)
	if len(raw) > 0 {
		c.st.Mutating++
	}
	// ---- facts for the model
	facts := []string{op, "repo=" + repo, "st=" + status, "code=" + code, "ok=" + b01(mok), "mex=" + b01(mex), "mconv=" + b01(mconv),
		"D=" + b01(df.D), "L=" + b01(df.L), "I=" + b01(df.I), "U=" + b01(df.U), "ann=" + df.ann, "nsess=" + strconv.Itoa(nsess),
		"refen=" + b01(*h.conf.API.Referrer.Enabled), "ro=" + b01(*h.conf.Storage.ReadOnly), "sub=" + b01(df.sub)}
	facts = append(facts, c.kindFacts(op, t[1:], repo, status, code, df, dfA, sessBefore, manBefore, nmanA, nsess, inoBefore != inoAfter, known)...)
	if op == "UPOST" && kv(t[1:], "mount") != "" && kv(t[1:], "from") != "" {
		// a mount attempt (two repositories, fall-back to a plain upload) is not modelled: trace recorded, not compared
		c.emit(fmt.Sprintf("st=%s fsops=? raw=[%s]", status, strings.Join(trace, ";")), strings.Join(facts, " "))
	} else {
		c.emit(fmt.Sprintf("st=%s fsops=[%s]", status, strings.Join(trace, ";")), strings.Join(facts, " "))
	}
	// ---- recover every distinct crash state
	c.checkSnaps(op, t[1:], repo, lineNo, pre, post, manBefore)
	for _, s := range c.snaps {
		_ = os.RemoveAll(s.dir)
	}
	c.snaps = nil
	_ = os.RemoveAll(pre)
	c.pristine = post
	if op == "GC" {
		// the further passes of the line may have changed the directory again
		_ = os.RemoveAll(post)
		c.pristine = ""
	}
	return out
}

// roles names the blob files a request works on by their role, so that the canonical trace is independent of digests:
// $B the digest named by the request, $M the manifest body of the request, $R a referrers response, $G a collected blob
func (c *Crash) roles(op string, a []string, repo string, raw []string, pre, post string) map[string]string {
	h := c.h
	roles := map[string]string{}
	for _, k := range []string{"digest", "mount"} {
		if v := kv(a, k); validDigestTok(v) {
			if d := digest.Digest(h.tk.realDigest(v)); d.Validate() == nil {
				roles[repo+"/blobs/"+d.Algorithm().String()+"/"+d.Encoded()] = "$B"
			}
		}
	}
	if op == "BDEL" && len(a) > 1 && validDigestTok(a[1]) {
		if d := digest.Digest(h.tk.realDigest(a[1])); d.Validate() == nil {
			roles[repo+"/blobs/"+d.Algorithm().String()+"/"+d.Encoded()] = "$B"
		}
	}
	var body []byte
	if op == "MPUT" {
		body = h.tk.content(kv(a, "body"))
	}
	for _, l := range raw {
		for _, f := range strings.Fields(l) {
			p := strings.Split(f, "/")
			if len(p) < 4 || p[len(p)-3] != "blobs" {
				continue
			}
			if _, ok := roles[f]; ok {
				continue
			}
			b, err := os.ReadFile(filepath.Join(post, f))
			if err != nil {
				b, err = os.ReadFile(filepath.Join(pre, f))
			}
			switch {
			case op == "GC":
				roles[f] = "$G"
			case err == nil && op == "MPUT" && string(b) == string(body):
				roles[f] = "$M"
			case err == nil && strings.HasPrefix(h.tk.contentName(b), "R("):
				roles[f] = "$R"
			default:
				roles[f] = "$?" + p[len(p)-1][:8]
			}
		}
	}
	return roles
}

// canonTrace: blob names by role, consecutive writes to one handle merged
func canonTrace(raw []string, roles map[string]string) []string {
	var out []string
	for _, l := range raw {
		fs := strings.Fields(l)
		for i, f := range fs {
			if r, ok := roles[f]; ok {
				p := strings.Split(f, "/")
				fs[i] = strings.Join(p[:len(p)-1], "/") + "/" + r
			}
		}
		l = strings.Join(fs, " ")
		if len(out) > 0 && strings.HasPrefix(l, "write ") && out[len(out)-1] == l {
			continue
		}
		out = append(out, l)
	}
	return out
}

// kindFacts: what the model needs to know about this request beyond the common facts (all taken from the request line,
// the answer, the shadow of the monitors and the directory before / after - never from the recorded trace)
func (c *Crash) kindFacts(op string, a []string, repo, status, code string, df, dfA diskFacts, sess *sessShadow, manBefore map[string]*manShadow, nmanA, nsess int, replaced bool, known map[string]bool) []string {
	h := c.h
	var f []string
	blobFacts := func(prefix, real string) {
		d := digest.Digest(real)
		if d.Validate() != nil {
			f = append(f, prefix+"valid=0")
			return
		}
		f = append(f, prefix+"valid=1", prefix+"alg="+d.Algorithm().String(), prefix+"had="+b01(df.blobs[d.Algorithm().String()+":"+d.Encoded()]),
			prefix+"algdir="+b01(df.algDir[d.Algorithm().String()]))
	}
	bodyLen := len(h.tk.content(kv(a, "body")))
	switch op {
	case "UPOST":
		f = append(f, "mount="+b01(kv(a, "mount") != "" && kv(a, "from") != ""), "mono="+b01(kv(a, "digest") != ""), "body="+b01(bodyLen > 0))
		if v := kv(a, "digest"); v != "" {
			blobFacts("b", h.tk.realDigest(v))
		} else if v := kv(a, "mount"); v != "" {
			blobFacts("b", h.tk.realDigest(v))
		}
		if al := kv(a, "algo"); al != "" {
			f = append(f, "algo="+al)
		}
	case "UPATCH", "UPUT", "UDEL":
		open := sess != nil && sess.open && sess.repo == repo && !sess.unknown
		f = append(f, "open="+b01(open), "body="+b01(bodyLen > 0))
		if open {
			f = append(f, "stateok="+b01(kv(a, "state") == strconv.Itoa(len(sess.received))))
		}
		if op == "UPUT" {
			if v := kv(a, "digest"); v != "" {
				blobFacts("b", h.tk.realDigest(v))
			}
			// the blob the session ends up as (when it does): present before?
			for d := range dfA.blobs {
				if !df.blobs[d] {
					f = append(f, "newalgdir="+b01(df.algDir[strings.SplitN(d, ":", 2)[0]]))
				}
			}
		}
	case "BDEL":
		if len(a) > 1 {
			blobFacts("b", h.tk.realDigest(a[1]))
		}
	case "MPUT":
		body := h.tk.content(kv(a, "body"))
		bi := h.bodyInfo(kv(a, "body"))
		// digest the manifest is stored under
		alg := digest.SHA256
		if len(a) > 1 && !types.RefTagRE.MatchString(a[1]) && validDigestTok(a[1]) {
			if d := digest.Digest(h.tk.realDigest(a[1])); d.Validate() == nil {
				alg = d.Algorithm()
			}
		} else if qd := kv(a, "qd"); validDigestTok(qd) {
			if d := digest.Digest(h.tk.realDigest(qd)); d.Validate() == nil {
				alg = d.Algorithm()
			}
		}
		blobFacts("m", alg.FromBytes(body).String())
		f = append(f, "body="+b01(len(body) > 0))
		// the handler takes any non-empty subject digest string (it need not parse)
		subj := status == "201" && bi.subj != "" && h.tk.realDigest(bi.subj) != "" && *h.conf.API.Referrer.Enabled && (bi.kind == "image" || bi.kind == "index")
		f = append(f, "subj="+b01(subj))
		if subj {
			c.respFacts(&f, repo, h.tk.realDigest(bi.subj), df, dfA)
		}
	case "MDEL":
		byDigest := len(a) > 1 && !types.RefTagRE.MatchString(a[1])
		f = append(f, "bydigest="+b01(byDigest))
		if byDigest && validDigestTok(a[1]) && status == "202" {
			real := h.tk.realDigest(a[1])
			d := digest.Digest(real)
			// the handler reads the manifest and, when it names a subject for which the index holds a response, rewrites that response
			subject := ""
			if b, err := os.ReadFile(filepath.Join(c.pristine, repo, "blobs", d.Algorithm().String(), d.Encoded())); err == nil && *h.conf.API.Referrer.Enabled {
				var m struct {
					Subject *types.Descriptor `json:"subject"`
				}
				if json.Unmarshal(b, &m) == nil && m.Subject != nil && m.Subject.Digest != "" {
					subject = m.Subject.Digest.String()
				}
			}
			had := false
			for _, e := range df.idx.Manifests {
				if e.Annotations[types.AnnotReferrerSubject] == subject && subject != "" {
					had = true
				}
			}
			f = append(f, "refdel="+b01(had))
			if had {
				c.respFacts(&f, repo, subject, df, dfA)
			}
		}
	case "GC":
		// what the collection removed is read off the directory before and after
		var algs []string
		for al := range df.algDir {
			algs = append(algs, al)
		}
		sort.Strings(algs)
		for _, al := range algs {
			gone := 0
			for d := range df.blobs {
				if strings.HasPrefix(d, al+":") && !dfA.blobs[d] {
					gone++
				}
			}
			f = append(f, fmt.Sprintf("alg=%s:%d:%d", al, df.nblob[al], gone))
		}
		// did the collection save the index (beyond the converted annotation of the load)?  index.json was replaced by a
		// new file; when the repository is gone afterwards: it had entries and has none now
		conv := *h.conf.API.Referrer.Enabled && df.I && df.ann == "0"
		ea, _ := json.Marshal(df.idx.Manifests)
		eb, _ := json.Marshal(dfA.idx.Manifests)
		mod := replaced
		switch {
		case !dfA.I:
			// the index file is gone: it was saved before iff entries were dropped, or a removed blob was known to the cached
			// index (a recorded child)
			mod = df.nent > 0
			for d := range df.blobs {
				if !dfA.blobs[d] && known[d] {
					mod = true
				}
			}
		case conv:
			mod = string(ea) != string(eb)
		}
		f = append(f, "nent="+strconv.Itoa(df.nent), "nman="+strconv.Itoa(nmanA), "mod="+b01(mod), "goneafter="+b01(!dfA.D),
			"idxafter="+b01(dfA.I), "emptyrepo="+b01(*h.conf.Storage.GC.EmptyRepo), "upfiles="+strconv.Itoa(df.upFiles))
	}
	return f
}

// respFacts: the referrers response the index names for the subject after the request - did its blob exist before?
func (c *Crash) respFacts(f *[]string, repo, subject string, df, dfA diskFacts) {
	for _, e := range dfA.idx.Manifests {
		if e.Annotations[types.AnnotReferrerSubject] == subject && e.Digest.Validate() == nil {
			*f = append(*f, "rhad="+b01(df.blobs[e.Digest.Algorithm().String()+":"+e.Digest.Encoded()]), "ralgdir="+b01(df.algDir[e.Digest.Algorithm().String()]))
			return
		}
	}
	*f = append(*f, "rhad=-")
}

// ---------------------------------------------------------------- the monitors

func (c *Crash) checkSnaps(op string, a []string, repo string, lineNo int, pre, post string, manBefore map[string]*manShadow) {
	h := c.h
	if len(c.snaps) == 0 {
		return
	}
	saveLine := h.lineNo
	h.lineNo = lineNo
	defer func() { h.lineNo = saveLine }()
	verifvfs.Pause(true)
	defer verifvfs.Pause(false)
	u := c.universe(repo)
	preHash, postHash := treeHash(pre), treeHash(post)
	seen := map[string]bool{}
	initEnd := c.initEnd
	var preObs, postObs map[string]*repoObs
	preIssues, postIssues := map[string]bool{}, map[string]bool{}
	flagged := map[string]bool{}
	for i, s := range c.snaps {
		c.st.Points++
		if s.pt.Mid {
			c.st.MidPoints++
		}
		c.st.Kinds[strings.SplitN(s.pt.Op, " ", 2)[0]]++
		hs := treeHash(s.dir)
		switch {
		case hs == preHash:
			c.st.SameAsBefore++
			continue
		case hs == postHash:
			c.st.SameAsAfter++
			continue
		case seen[hs]:
			c.st.Duplicate++
			continue
		}
		seen[hs] = true
		where := fmt.Sprintf("crash point k=%d before `%s`", s.pt.K, s.pt.Op)
		if s.pt.Mid {
			where = fmt.Sprintf("crash point k=%d inside `%s` after %d of %d bytes", s.pt.K, s.pt.Op, s.pt.Cut, s.pt.Len)
		}
		where = fmt.Sprintf("%s (request `%s %s`, snapshot %d of %d)", where, op, strings.Join(a, " "), i+1, len(c.snaps))
		if preObs == nil {
			for _, is := range c.diskCheck(pre) {
				preIssues[is.kind+" "+is.key] = true
			}
			for _, is := range c.diskCheck(post) {
				postIssues[is.kind+" "+is.key] = true
			}
			tmp := filepath.Join(c.snapRoot, "obs")
			_ = os.RemoveAll(tmp)
			_ = copyTree(post, tmp)
			postObs = c.observeDir(tmp, u)
			_ = os.RemoveAll(tmp)
			_ = copyTree(pre, tmp)
			preObs = c.observeDir(tmp, u)
			_ = os.RemoveAll(tmp)
		}
		// disk level, on the untouched copy
		for _, is := range c.diskCheck(s.dir) {
			if preIssues[is.kind+" "+is.key] || postIssues[is.kind+" "+is.key] || flagged[is.kind+" "+is.key] {
				continue // not caused by the crash (e.g. a tag whose blob was deleted through the API)
			}
			flagged[is.kind+" "+is.key] = true
			c.flag(is.kind, is.detail+" at "+where)
		}
		c.st.Recovered++
		c.st.RecoveredKind[op]++
		var rec map[string]*repoObs
		if probe := s.pt.K <= initEnd || sampled(hs); probe && h.mon.routable(h, repo) && !*h.conf.Storage.ReadOnly && *h.conf.API.PushEnabled {
			// continuation probe: the recovered server goes on (a fresh image is pushed), is abandoned, and the directory is
			// opened once more
			srv := c.openSrv(s.dir)
			rec = c.observeSrv(srv, u)
			c.st.Probes++
			if s.pt.K <= initEnd {
				c.st.ProbesInit++
			}
			for _, msg := range c.continuation(srv, s.dir, repo, u, preObs, postObs) {
				name := "C09.ack-lost-after-recovery"
				if strings.HasPrefix(msg, "load:") {
					name = "C09.load-error"
				}
				if !flagged[name+msg] {
					flagged[name+msg] = true
					c.flag(name, fmt.Sprintf("%s: %s; after %s", repo, msg, where))
				}
			}
		} else {
			rec = c.observeDir(s.dir, u)
		}
		for _, r := range u.repos {
			ro, po, ao := rec[r], preObs[r], postObs[r]
			for _, e := range ro.errs {
				if !inList(po.errs, e) && !inList(ao.errs, e) && !flagged["err "+r+e] {
					flagged["err "+r+e] = true
					c.flag("C09.load-error", fmt.Sprintf("%s: %s at %s", r, e, where))
				}
			}
			// acknowledged earlier and untouched by the interrupted request: must be in effect
			lost := c.ackLost(po, ao, ro)
			for _, l := range lost {
				if !flagged["lost "+r+l] {
					flagged["lost "+r+l] = true
					c.flag("C09.ack-lost", fmt.Sprintf("%s: %s at %s", r, l, where))
				}
			}
			rk, pk, ak := ro.key(), po.key(), ao.key()
			if rk == pk || rk == ak {
				continue
			}
			if op == "GC" && r == repo && between(ao, ro, po) {
				continue // a collection interrupted half way: every retained item intact, nothing new
			}
			if r == repo && c.restoresNamedBlob(pre, post, repo) {
				// the request re-creates a blob that the repository already names (an index entry or a child whose blob was
				// deleted through the blob API): the premise "every entry resolves" does not hold before the request, the
				// content-before-index order necessarily makes the old entry resolvable first.  Not judged.
				c.st.NotJudged++
				continue
			}
			name := "C09.not-atomic"
			if r == repo {
				name += c.cause(op, a, repo, po, ao, ro, manBefore)
			}
			if !flagged[name+r] {
				flagged[name+r] = true
				c.flag(name, fmt.Sprintf("%s: recovered state is neither the state before nor after the request; differs from before: %s; differs from after: %s; at %s",
					r, firstDiff(pk, rk), firstDiff(ak, rk), where))
			}
		}
	}
}

// repoInitEnd: the request starts with the initialisation of the repository (mkdir, oci-layout in place, first index.json):
// index of its last call in the trace, -1 if the request does not initialise
func repoInitEnd(raw []string, repo string, df diskFacts) int {
	if (df.D && df.L && df.I) || len(raw) == 0 {
		return -1
	}
	f0 := strings.Fields(raw[0])
	if len(f0) < 2 || !(raw[0] == "mkdirall "+repo || f0[0] == "writefile" && f0[1] == repo+"/oci-layout" ||
		(f0[0] == "createtemp" && f0[1] == repo+"/index.json.#" && !df.I && !(df.D && df.L))) {
		return -1
	}
	end := -1
	for i, l := range raw {
		f := strings.Fields(l)
		if len(f) < 2 {
			break
		}
		if l == "mkdirall "+repo || f[1] == repo+"/oci-layout" || strings.HasPrefix(f[1], repo+"/index.json") {
			end = i
			if f[0] == "close" {
				break
			}
			continue
		}
		break
	}
	return end
}

// sampled: a deterministic 1-in-25 sample of the crash states (by content, so that a replay probes the same ones)
func sampled(hash string) bool {
	n, err := strconv.ParseUint(hash[:6], 16, 32)
	return err == nil && n%25 == 0
}

// continuation: the history goes on after the crash-restart.  On the recovered server `srv` a fresh small image is
// pushed to the addressed repository (monolithic blob upload, manifest by a new tag); the server is abandoned without
// Close and yet another fresh server is opened on the directory.  Required: both pushes are acknowledged, the
// repository loads, the blob and the tag just acknowledged are served with their bytes, and everything that was in
// effect before and after the interrupted request still is.
func (c *Crash) continuation(srv *olareg.Server, dir, repo string, u *universe, pre, post map[string]*repoObs) []string {
	var out []string
	blob := []byte("{\"crash-probe\":true}")
	bd := digest.FromBytes(blob)
	man, _ := json.Marshal(types.Manifest{SchemaVersion: 2, MediaType: types.MediaTypeOCI1Manifest,
		Config: types.Descriptor{MediaType: types.MediaTypeOCI1ImageConfig, Digest: bd, Size: int64(len(blob))},
		Layers: []types.Descriptor{{MediaType: types.MediaTypeOCI1Layer, Digest: bd, Size: int64(len(blob))}}})
	md := digest.FromBytes(man)
	const tag = "zz-crash-probe"
	st, _, _ := c.serveBody(srv, "POST", "/v2/"+repo+"/blobs/uploads/?digest="+bd.String(), nil, blob)
	if st != 201 {
		return []string{fmt.Sprintf("load: the recovered server answers %d to a blob upload", st)}
	}
	st, _, _ = c.serveBody(srv, "PUT", "/v2/"+repo+"/manifests/"+tag, map[string][]string{"Content-Type": {types.MediaTypeOCI1Manifest}}, man)
	if st != 201 {
		return []string{fmt.Sprintf("load: the recovered server answers %d to a manifest push", st)}
	}
	// srv is abandoned (no Close: a second crash right after the acknowledgement)
	srv2 := c.openSrv(dir)
	defer srv2.Close()
	st, _, body := c.serve(srv2, "GET", "/v2/"+repo+"/blobs/"+bd.String(), nil)
	if st >= 500 {
		out = append(out, fmt.Sprintf("load: blob read answers %d after the second restart", st))
	} else if st != 200 || string(body) != string(blob) {
		out = append(out, fmt.Sprintf("a blob pushed to the recovered repository was acknowledged with 201; after the next restart GET answers %d (%d bytes)", st, len(body)))
	}
	st, hd, body := c.serve(srv2, "GET", "/v2/"+repo+"/manifests/"+tag, accAll)
	if st >= 500 {
		out = append(out, fmt.Sprintf("load: manifest read answers %d after the second restart", st))
	} else if st != 200 || string(body) != string(man) || hd.Get("Docker-Content-Digest") != md.String() {
		out = append(out, fmt.Sprintf("a manifest pushed to the recovered repository under tag %s was acknowledged with 201; after the next restart GET answers %d (%d bytes)", tag, st, len(body)))
	}
	obs2 := c.observeSrv(srv2, u)
	for _, r := range u.repos {
		for _, e := range obs2[r].errs {
			if !inList(pre[r].errs, e) && !inList(post[r].errs, e) {
				out = append(out, "load: "+r+": "+e+" after the second restart")
			}
		}
		for _, l := range c.ackLost(pre[r], post[r], obs2[r]) {
			if strings.Contains(l, "not after the crash") || strings.Contains(l, "resolved to") {
				if strings.Contains(l, tag) {
					continue
				}
				out = append(out, r+": after the continuation and a second restart: "+l)
			}
		}
	}
	return out
}

func firstDiff(a, b string) string {
	am, bm := map[string]bool{}, map[string]bool{}
	for _, l := range strings.Split(a, "\n") {
		am[l] = true
	}
	for _, l := range strings.Split(b, "\n") {
		bm[l] = true
	}
	var d []string
	for l := range am {
		if !bm[l] && l != "" {
			d = append(d, "-"+l)
		}
	}
	for l := range bm {
		if !am[l] && l != "" {
			d = append(d, "+"+l)
		}
	}
	sort.Strings(d)
	if len(d) > 4 {
		d = append(d[:4], "...")
	}
	return "[" + strings.Join(d, " | ") + "]"
}

func (c *Crash) ackLost(pre, post, rec *repoObs) []string {
	var out []string
	for d, ok := range pre.blobs {
		if ok && post.blobs[d] && !rec.blobs[d] {
			out = append(out, "blob "+d+" was readable before and after the request, not after the crash")
		}
		if !ok && !post.blobs[d] && rec.blobs[d] {
			out = append(out, "blob "+d+" was absent before and after the request, readable after the crash")
		}
	}
	for d, ok := range pre.mans {
		if ok && post.mans[d] && !rec.mans[d] {
			out = append(out, "manifest "+d+" was present before and after the request, not after the crash")
		}
		if !ok && !post.mans[d] && rec.mans[d] {
			out = append(out, "manifest "+d+" was absent (never pushed or deleted) before and after the request, present after the crash")
		}
	}
	tags := map[string]bool{}
	for t := range pre.tags {
		tags[t] = true
	}
	for t := range post.tags {
		tags[t] = true
	}
	for t := range rec.tags {
		tags[t] = true
	}
	for t := range tags {
		if pre.tags[t] == post.tags[t] && rec.tags[t] != pre.tags[t] {
			out = append(out, fmt.Sprintf("tag %s resolved to %q before and after the request, to %q after the crash", t, pre.tags[t], rec.tags[t]))
		}
	}
	subj := map[string]bool{}
	for s := range pre.refs {
		subj[s] = true
	}
	for s := range rec.refs {
		subj[s] = true
	}
	for s := range subj {
		for _, e := range pre.refs[s] {
			if inList(post.refs[s], e) && !inList(rec.refs[s], e) {
				out = append(out, fmt.Sprintf("referrers of %s listed %s before and after the request, not after the crash", s, e))
			}
		}
		for _, e := range rec.refs[s] {
			if !inList(post.refs[s], e) && !inList(pre.refs[s], e) {
				out = append(out, fmt.Sprintf("referrers of %s lists %s after the crash, neither before nor after the request", s, e))
			}
		}
	}
	sort.Strings(out)
	return out
}

// restoresNamedBlob: some blob file that exists after the request but not before is named (by its encoded digest) in
// index.json or in a blob of the repository as it was before the request
func (c *Crash) restoresNamedBlob(pre, post, repo string) bool {
	before, after := readDiskFacts(pre, repo), readDiskFacts(post, repo)
	var fresh []string
	for d := range after.blobs {
		if !before.blobs[d] {
			fresh = append(fresh, strings.SplitN(d, ":", 2)[1])
		}
	}
	if len(fresh) == 0 {
		return false
	}
	var texts []string
	if b, err := os.ReadFile(filepath.Join(pre, repo, "index.json")); err == nil {
		texts = append(texts, string(b))
	}
	for d := range before.blobs {
		p := strings.SplitN(d, ":", 2)
		if b, err := os.ReadFile(filepath.Join(pre, repo, "blobs", p[0], p[1])); err == nil && len(b) < 1<<20 {
			texts = append(texts, string(b))
		}
	}
	for _, hx := range fresh {
		for _, t := range texts {
			if strings.Contains(t, hx) {
				return true
			}
		}
	}
	return false
}

// between: every item of lo is in mid unchanged, every item of mid is in hi unchanged
func between(lo, mid, hi *repoObs) bool {
	sub := func(a, b *repoObs) bool {
		for t, d := range a.tags {
			if b.tags[t] != d {
				return false
			}
		}
		for d, ok := range a.mans {
			if ok && !b.mans[d] {
				return false
			}
		}
		for s, l := range a.refs {
			for _, e := range l {
				if !inList(b.refs[s], e) {
					return false
				}
			}
		}
		return true
	}
	return sub(lo, mid) && sub(mid, hi)
}

// cause names the two orders in which a manifest and the referrers response of its subject are saved separately
// (F16); anything else stays a plain C09.not-atomic
func (c *Crash) cause(op string, a []string, repo string, pre, post, rec *repoObs, manBefore map[string]*manShadow) string {
	h := c.h
	eqExceptRefs := func(x, y *repoObs, subject string) bool {
		xs, ys := *x, *y
		xr, yr := map[string][]string{}, map[string][]string{}
		for s, l := range x.refs {
			if s != subject {
				xr[s] = l
			}
		}
		for s, l := range y.refs {
			if s != subject {
				yr[s] = l
			}
		}
		xs.refs, ys.refs = xr, yr
		// a response document is readable as a manifest by its digest: that observation belongs to the referrers of its subject
		xm, ym := map[string]bool{}, map[string]bool{}
		for d, ok := range x.mans {
			if !strings.Contains(d, ":R(") {
				xm[d] = ok
			}
		}
		for d, ok := range y.mans {
			if !strings.Contains(d, ":R(") {
				ym[d] = ok
			}
		}
		xs.mans, ys.mans = xm, ym
		return xs.key() == ys.key()
	}
	same := func(x, y []string) bool { return strings.Join(x, ",") == strings.Join(y, ",") }
	switch op {
	case "MPUT":
		bi := h.bodyInfo(kv(a, "body"))
		if bi.subj == "" || !validDigestTok(bi.subj) {
			return ""
		}
		s := h.tk.tokDigest(h.tk.realDigest(bi.subj))
		// the manifest (and its tag) as after the request, the subject's referrers as before it
		if eqExceptRefs(rec, post, s) && same(rec.refs[s], pre.refs[s]) && !same(pre.refs[s], post.refs[s]) {
			return ".referrers-after-manifest"
		}
	case "MDEL":
		if len(a) < 2 || types.RefTagRE.MatchString(a[1]) || !validDigestTok(a[1]) {
			return ""
		}
		ms := manBefore[h.tk.realDigest(a[1])]
		if ms == nil || ms.subject == "" {
			return ""
		}
		s := h.tk.tokDigest(ms.subject)
		// the manifest still present as before the request, the subject's referrers already as after it
		if eqExceptRefs(rec, pre, s) && same(rec.refs[s], post.refs[s]) && !same(pre.refs[s], post.refs[s]) {
			return ".referrers-before-delete"
		}
	}
	return ""
}

// ---------------------------------------------------------------- generation and replay

func (c *Crash) confLine(g *Gen, profile string) string {
	parts := []string{"store=dir"}
	switch profile {
	case "gcrefs", "gctags":
		if g.r.Intn(2) == 0 {
			parts = append(parts, "untagged=1")
		}
		if g.r.Intn(4) == 0 {
			parts = append(parts, "emptyrepo=0")
		}
		if g.r.Intn(3) == 0 {
			parts = append(parts, "dangling=1")
		}
	case "refs":
		if g.r.Intn(3) == 0 {
			parts = append(parts, "rlimit="+strconv.Itoa(300+g.r.Intn(900)))
		}
	}
	return strings.Join(parts, " ")
}

func (c *Crash) history(g *Gen, profile string, steps int) {
	g.newHistory(c.confLine(g, profile))
	offs, recv := map[int]int{}, map[int]string{}
	gcEvery := 9
	if strings.HasPrefix(profile, "gc") {
		gcEvery = 4
	}
	k := steps + g.r.Intn(steps/2+1)
	for i := 0; i < k; i++ {
		if g.r.Intn(gcEvery) == 0 {
			g.emit("GC " + g.pick([]string{"r1", "r1", "r1", "r2"}))
			continue
		}
		switch profile {
		case "upload":
			g.uploadStep(offs, recv)
		case "tags", "gctags":
			g.tagsStep()
		case "refs", "gcrefs":
			g.refsStep()
		default:
			g.step()
		}
	}
}

func runCrash(h *H, mode string, seed, n int, impl *bufio.Writer) int {
	c := &Crash{h: h, impl: impl, tagsSeen: map[string]map[string]bool{}, subjSeen: map[string]map[string]bool{}}
	c.st.Monitors, c.st.Kinds, c.st.RecoveredKind = map[string]int{}, map[string]int{}, map[string]int{}
	c.snapRoot = filepath.Join(h.workDir, "crash")
	_ = os.MkdirAll(c.snapRoot, 0o755)
	defer os.RemoveAll(c.snapRoot)
	if cs := os.Getenv("VERIF_CUTS"); cs == "3" {
		verifvfs.Cuts = func(n int) []int {
			if n < 2 {
				return nil
			}
			out := []int{1}
			if n/2 > 1 {
				out = append(out, n/2)
			}
			if n-1 > n/2 {
				out = append(out, n-1)
			}
			return out
		}
	}
	ff := os.Getenv("VERIF_FACTS")
	if ff == "" {
		ff = os.DevNull
	}
	factsF, err := os.Create(ff)
	if err != nil {
		fmt.Fprintln(os.Stderr, err)
		return 2
	}
	c.facts = bufio.NewWriterSize(factsF, 1<<20)
	defer func() {
		c.facts.Flush()
		factsF.Close()
		if sf := os.Getenv("VERIF_STATS"); sf != "" {
			b, _ := json.MarshalIndent(c.st, "", " ")
			_ = os.WriteFile(sf, b, 0o644)
		}
	}()
	if mode == "crashreplay" {
		f, err := os.Open(os.Getenv("VERIF_OPS"))
		if err != nil {
			fmt.Fprintln(os.Stderr, err)
			return 2
		}
		defer f.Close()
		sc := bufio.NewScanner(f)
		sc.Buffer(make([]byte, 1<<20), 1<<26)
		for sc.Scan() {
			c.apply(sc.Text())
		}
		return 0
	}
	opsF, err := os.Create(os.Getenv("VERIF_OPS"))
	if err != nil {
		fmt.Fprintln(os.Stderr, err)
		return 2
	}
	ops := bufio.NewWriterSize(opsF, 1<<20)
	profile := os.Getenv("VERIF_PROFILE")
	steps, _ := strconv.Atoi(os.Getenv("VERIF_STEPS"))
	if steps <= 0 {
		steps = 8
	}
	g := &Gen{r: rand.New(rand.NewSource(int64(seed))), h: h, profile: profile, store: "dir"}
	g.emit = func(line string) string {
		fmt.Fprintln(ops, line)
		return c.apply(line)
	}
	for i := 0; i < n; i++ {
		c.history(g, profile, steps)
	}
	ops.Flush()
	opsF.Close()
	return 0
}
