//go:build sched

package main

// Generator of concurrent histories (C11): curated two- and three-thread cases whose schedules are enumerated
// exhaustively (stateless depth-first search over the enabled sets the controller records), and random cases with
// random schedules.  Only lines are produced; execution is Conc.apply.
import (
	"fmt"
	"math/rand"
	"os"
	"regexp"
	"sort"
	"strconv"
	"strings"
)

func concEnvInt(k string) int {
	n, _ := strconv.Atoi(os.Getenv(k))
	return n
}

type ccase struct {
	name    string
	setup   []string   // after the prelude
	threads [][]string // request lines per thread
}

type cgen struct {
	c         *Conc
	r         *rand.Rand
	emit      func(line string) string
	emitSched func(prefix []int) string
	store     string
	budget    int
	histories int
	cases     int
	exhCases  int
	capped    int
	perCase   map[string]int
}

// the bodies every case draws from: name -> kind and tokens
var concBodies = [][3]string{
	{"@s1", "image", "mt=ocim cfg=sha256:c1 cfgmt=cfg layers= subj= at= ann=n=s1"},
	{"@s2", "image", "mt=ocim cfg=sha256:c1 cfgmt=cfg layers= subj= at= ann=n=s2"},
	{"@a1", "image", "mt=ocim cfg=sha256:c1 cfgmt=cfg layers= subj=sha256:@s1 at=x/a ann=n=a1"},
	{"@a2", "image", "mt=ocim cfg=sha256:c1 cfgmt=cfg layers= subj=sha256:@s1 at=x/a ann=n=a2"},
	{"@a3", "image", "mt=ocim cfg=sha256:c1 cfgmt=cfg layers= subj=sha256:@s1 at=x/b ann=n=a3"},
	{"@a4", "image", "mt=ocim cfg=sha256:c1 cfgmt=cfg layers= subj=sha256:@s2 at=x/a ann=n=a4"},
	{"@m1", "image", "mt=ocim cfg=sha256:c1 cfgmt=cfg layers= subj= at= ann=n=m1"},
	{"@m2", "image", "mt=ocim cfg=sha256:c1 cfgmt=cfg layers= subj= at= ann=n=m2"},
	{"@m3", "image", "mt=ocim cfg=sha256:c1 cfgmt=cfg layers=sha256:c2 subj= at= ann=n=m3"},
	{"@i1", "index", "mt=ocii children=ocim/sha256:@m1/1 subj= at= ann=n=i1"},
	{"@i2", "index", "mt=ocii children=ocim/sha256:@m1/1;ocim/sha256:@m2/1 subj= at= ann=n=i2"},
}

var reBodyName = regexp.MustCompile(`@[a-z][0-9]`)
var reTagName = regexp.MustCompile(`^t[0-9]$`)

func (cs ccase) lines() []string {
	out := append([]string{}, cs.setup...)
	for i, th := range cs.threads {
		for _, l := range th {
			out = append(out, fmt.Sprintf("T%d %s", i+1, l))
		}
	}
	return out
}

// prelude: configuration, the definitions of the bodies the case mentions (and those they mention), the config blob
func (g *cgen) prelude(cs ccase) []string {
	st := g.store
	if st == "" {
		st = "mem"
	}
	out := []string{"NEW store=" + st}
	need := map[string]bool{}
	text := strings.Join(cs.lines(), " ")
	for _, n := range reBodyName.FindAllString(text, -1) {
		need[n] = true
	}
	for changed := true; changed; {
		changed = false
		for _, b := range concBodies {
			if need[b[0]] {
				for _, n := range reBodyName.FindAllString(b[2], -1) {
					if !need[n] {
						need[n], changed = true, true
					}
				}
			}
		}
	}
	for _, b := range concBodies {
		if need[b[0]] {
			raw := g.c.h.tk.buildBody(b[0], b[1], strings.Fields(b[2]))
			g.c.h.tk.reg(b[0], raw) // what the DEF line does: later bodies refer to this one by digest
			out = append(out, fmt.Sprintf("DEF %s %s %s len=%d", b[0], b[1], b[2], len(raw)))
		}
	}
	return out
}

// observation: every facet the case can have touched, per repository
func (g *cgen) observation(cs ccase) []string {
	text := cs.lines()
	repos, tags, bodies := map[string]bool{}, map[string]bool{}, map[string]bool{}
	blobs := map[string]bool{}
	for _, l := range text {
		t := strings.Fields(l)
		if len(t) > 0 && t[0][0] == 'T' && len(t[0]) > 1 && t[0][1] >= '0' && t[0][1] <= '9' {
			t = t[1:]
		}
		if len(t) < 2 {
			continue
		}
		repos[t[1]] = true
		for _, x := range t[2:] {
			if reTagName.MatchString(x) {
				tags[x] = true
			}
		}
		for _, n := range reBodyName.FindAllString(l, -1) {
			bodies[n] = true
		}
		if t[0] == "UPOST" || t[0] == "BDEL" {
			for _, x := range t[2:] {
				if strings.HasPrefix(x, "sha256:c") {
					blobs[x] = true
				}
				if strings.HasPrefix(x, "digest=sha256:c") {
					blobs[strings.TrimPrefix(x, "digest=")] = true
				}
			}
		}
	}
	// subjects of the artifacts mentioned
	for _, b := range concBodies {
		if bodies[b[0]] {
			for _, n := range reBodyName.FindAllString(b[2], -1) {
				bodies[n] = true
			}
		}
	}
	keys := func(m map[string]bool) []string {
		l := []string{}
		for k := range m {
			l = append(l, k)
		}
		sort.Strings(l)
		return l
	}
	var out []string
	for _, r := range keys(repos) {
		out = append(out, "TAGS "+r)
		for _, t := range keys(tags) {
			out = append(out, fmt.Sprintf("MGET %s %s accept=%s", r, t, allAccept))
		}
		for _, b := range keys(bodies) {
			out = append(out, fmt.Sprintf("MGET %s sha256:%s accept=%s", r, b, allAccept))
		}
		for _, b := range keys(bodies) {
			if strings.HasPrefix(b, "@s") {
				out = append(out, fmt.Sprintf("REFS %s sha256:%s", r, b))
			}
		}
		for _, b := range keys(blobs) {
			out = append(out, fmt.Sprintf("BHEAD %s %s", r, b))
		}
	}
	return out
}

// runCase emits one history: the case under the schedule prefix (completed by the controller's default rule)
func (g *cgen) runCase(cs ccase, prefix []int) *ctl {
	for _, l := range g.prelude(cs) {
		g.emit(l)
	}
	for _, l := range cs.setup {
		g.emit(l)
	}
	g.emit(fmt.Sprintf("PAR %d", len(cs.threads)))
	for i, th := range cs.threads {
		for _, l := range th {
			g.emit(fmt.Sprintf("T%d %s", i+1, l))
		}
	}
	g.emitSched(prefix)
	ct := g.c.lastCtl
	for i, th := range cs.threads {
		for j := range th {
			g.emit(fmt.Sprintf("ANS %d.%d", i+1, j+1))
		}
	}
	for _, l := range g.observation(cs) {
		g.emit(l)
	}
	g.emit("LIN")
	g.histories++
	if g.perCase == nil {
		g.perCase = map[string]int{}
	}
	g.perCase[cs.name]++
	return ct
}

// explore enumerates the complete schedules of a case (at most limit); true = all of them were run
func (g *cgen) explore(cs ccase, limit int) (int, bool) {
	stack := [][]int{nil}
	count := 0
	for len(stack) > 0 {
		if count >= limit || (g.budget > 0 && g.histories >= g.budget) {
			return count, false
		}
		p := stack[len(stack)-1]
		stack = stack[:len(stack)-1]
		ct := g.runCase(cs, p)
		count++
		for i := len(p); i < len(ct.eff); i++ {
			for _, u := range ct.enabled[i] {
				if u != ct.eff[i] {
					stack = append(stack, append(append([]int{}, ct.eff[:i]...), u))
				}
			}
		}
	}
	return count, true
}

func (g *cgen) randomSched(k int) []int {
	n := 8 + g.r.Intn(40)
	out := make([]int, n)
	// bursts: a thread tends to keep running for a few actions
	cur := 1 + g.r.Intn(k)
	for i := range out {
		if g.r.Intn(3) == 0 {
			cur = 1 + g.r.Intn(k)
		}
		out[i] = cur
	}
	return out
}

const setupBlob = "UPOST r1 digest=sha256:c1 body=c1"

func mput(repo, ref, body string) string {
	if strings.HasPrefix(ref, "@") {
		ref = "sha256:" + ref
	}
	return fmt.Sprintf("MPUT %s %s ct=ocim body=%s", repo, ref, body)
}
func mdel(repo, ref string) string {
	if strings.HasPrefix(ref, "@") {
		ref = "sha256:" + ref
	}
	return fmt.Sprintf("MDEL %s %s", repo, ref)
}
func mget(repo, ref string) string {
	if strings.HasPrefix(ref, "@") {
		ref = "sha256:" + ref
	}
	return fmt.Sprintf("MGET %s %s accept=%s", repo, ref, allAccept)
}

// curated: the interleavings the property names, two or three threads each
func (g *cgen) curated() []ccase {
	s := []string{setupBlob, mput("r1", "@s1", "@s1")}
	return []ccase{
		{"two-artifacts-one-subject", s, [][]string{{mput("r1", "@a1", "@a1")}, {mput("r1", "@a2", "@a2")}}},
		{"artifact-push-vs-artifact-delete", append(append([]string{}, s...), mput("r1", "@a2", "@a2")), [][]string{{mput("r1", "@a1", "@a1")}, {mdel("r1", "@a2")}}},
		{"two-artifact-deletes", append(append([]string{}, s...), mput("r1", "@a1", "@a1"), mput("r1", "@a2", "@a2")), [][]string{{mdel("r1", "@a1")}, {mdel("r1", "@a2")}}},
		{"tag-delete-vs-tag-move", []string{setupBlob, mput("r1", "t1", "@m1")}, [][]string{{mdel("r1", "t1")}, {mput("r1", "t1", "@m2")}}},
		{"digest-delete-vs-tag-push-same-manifest", []string{setupBlob, mput("r1", "t1", "@m1")}, [][]string{{mdel("r1", "@m1")}, {mput("r1", "t2", "@m1")}}},
		{"tag-delete-vs-other-tag-same-manifest", []string{setupBlob, mput("r1", "t1", "@m1")}, [][]string{{mdel("r1", "t1")}, {mput("r1", "t2", "@m1")}}},
		{"artifact-push-vs-delete-same-digest", append(append([]string{}, s...), mput("r1", "@a1", "@a1")), [][]string{{mput("r1", "@a1", "@a1")}, {mdel("r1", "@a1")}}},
		{"new-artifact-push-vs-delete-same-digest", s, [][]string{{mput("r1", "@a1", "@a1")}, {mdel("r1", "@a1")}}},
		{"manifest-push-vs-delete-same-digest", []string{setupBlob, mput("r1", "@m1", "@m1")}, [][]string{{mput("r1", "@m1", "@m1")}, {mdel("r1", "@m1")}}},
		{"two-deletes-one-tag", []string{setupBlob, mput("r1", "t1", "@m1")}, [][]string{{mdel("r1", "t1")}, {mdel("r1", "t1")}}},
		{"two-deletes-one-digest", []string{setupBlob, mput("r1", "t1", "@m1")}, [][]string{{mdel("r1", "@m1")}, {mdel("r1", "@m1")}}},
		{"tag-race-two", []string{setupBlob}, [][]string{{mput("r1", "t1", "@m1")}, {mput("r1", "t1", "@m2")}}},
		{"tag-race-three", []string{setupBlob}, [][]string{{mput("r1", "t1", "@m1")}, {mput("r1", "t1", "@m2")}, {mput("r1", "t1", "@s1")}}},
		{"tag-push-vs-reads", []string{setupBlob, mput("r1", "t1", "@m1")}, [][]string{{mput("r1", "t1", "@m2")}, {"TAGS r1"}, {mget("r1", "t1")}}},
		{"artifact-push-vs-referrers-read", append(append([]string{}, s...), mput("r1", "@a2", "@a2")), [][]string{{mput("r1", "@a1", "@a1")}, {"REFS r1 sha256:@s1"}}},
		{"artifact-tag-push-vs-two-reads-in-a-row", s, [][]string{{mput("r1", "t1", "@a1")}, {mget("r1", "t1"), "REFS r1 sha256:@s1"}}},
		{"artifact-delete-vs-two-reads-in-a-row", append(append([]string{}, s...), mput("r1", "t1", "@a1")), [][]string{{mdel("r1", "@a1")}, {"REFS r1 sha256:@s1", mget("r1", "@a1")}}},
		{"two-subjects", []string{setupBlob, mput("r1", "@s1", "@s1"), mput("r1", "@s2", "@s2")}, [][]string{{mput("r1", "@a1", "@a1")}, {mput("r1", "@a4", "@a4")}}},
		{"two-repositories", []string{setupBlob, "UPOST r2 digest=sha256:c1 body=c1", mput("r1", "@s1", "@s1"), mput("r2", "@s1", "@s1")}, [][]string{{mput("r1", "@a1", "@a1")}, {mput("r2", "@a2", "@a2")}}},
		{"index-push-vs-child-delete", []string{setupBlob, mput("r1", "@m1", "@m1")}, [][]string{{"MPUT r1 t1 ct=ocii body=@i1"}, {mdel("r1", "@m1")}}},
		// child records: a child of a present index is pushed again (its record moves to the top level) while it is read by digest;
		// it is resolvable before and after, so no order explains a not-found answer
		{"child-repush-vs-read-by-digest", []string{setupBlob, mput("r1", "@m1", "@m1"), mput("r1", "@m2", "@m2"), "MPUT r1 t1 ct=ocii body=@i2"},
			[][]string{{mput("r1", "t2", "@m1")}, {mget("r1", "@m1")}}},
		{"child-repush-vs-reads-of-both-children", []string{setupBlob, mput("r1", "@m1", "@m1"), mput("r1", "@m2", "@m2"), "MPUT r1 t1 ct=ocii body=@i2"},
			[][]string{{mput("r1", "@m1", "@m1")}, {mget("r1", "@m2"), mget("r1", "@m1")}}},
		{"blob-upload-vs-manifest-needing-it", []string{setupBlob}, [][]string{{"UPOST r1 digest=sha256:c2 body=c2"}, {mput("r1", "t1", "@m3")}}},
		{"blob-delete-vs-manifest-needing-it", []string{setupBlob}, [][]string{{"BDEL r1 sha256:c1"}, {mput("r1", "t1", "@m1")}}},
		{"collection-vs-artifact-push", s, [][]string{{"GC r1"}, {mput("r1", "@a1", "@a1")}}},
		// a listing that has read the index holds the repository until it has read the response document: a push that replaces
		// the response followed by a collection cannot take the old document away under it
		{"artifact-push-and-collection-vs-referrers-read", append(append([]string{}, s...), mput("r1", "@a1", "@a1")),
			[][]string{{mput("r1", "@a2", "@a2"), "GC r1"}, {"REFS r1 sha256:@s1"}}},
		{"collection-vs-tag-delete", []string{setupBlob, mput("r1", "t1", "@m1")}, [][]string{{"GC r1"}, {mdel("r1", "t1")}, {"TAGS r1"}}},
		{"three-artifacts-one-subject", s, [][]string{{mput("r1", "@a1", "@a1")}, {mput("r1", "@a2", "@a2")}, {mput("r1", "@a3", "@a3")}}},
		{"artifact-push-delete-read", append(append([]string{}, s...), mput("r1", "@a2", "@a2")), [][]string{{mput("r1", "@a1", "@a1")}, {mdel("r1", "@a2")}, {"REFS r1 sha256:@s1"}}},
	}
}

// tagRace: tag moves on one digest racing with reads of that tag and the listing (free-running stress under the race
// detector: the index a handler got from IndexGet is read while another handler's AddDesc/RmDesc rewrites entries and
// annotation maps of the store's index)
func (g *cgen) tagRace() ccase {
	return ccase{"tag-moves-vs-reads", []string{setupBlob, mput("r1", "t1", "@m1"), mput("r1", "t2", "@m2")},
		[][]string{{mput("r1", "t2", "@m1"), mput("r1", "t1", "@m2")}, {mget("r1", "t1"), "TAGS r1"}, {mput("r1", "t1", "@m1")}}}
}

// childRace: children of a present index are pushed again (their child records are removed in place) while they are read by
// digest through the index a handler got from IndexGet a moment before (free-running stress under the race detector)
func (g *cgen) childRace() ccase {
	return ccase{"child-repush-vs-reads", []string{setupBlob, mput("r1", "@m1", "@m1"), mput("r1", "@m2", "@m2"), "MPUT r1 t1 ct=ocii body=@i2"},
		[][]string{{mput("r1", "t2", "@m1"), mput("r1", "@m2", "@m2")}, {mget("r1", "@m1"), mget("r1", "@m2"), mget("r1", "@m1")}, {mget("r1", "@m2"), mget("r1", "@m1")}}}
}

// randomCase: a random setup and k threads over one or two repositories
func (g *cgen) randomCase(k int) ccase {
	repo := func() string {
		if g.r.Intn(6) == 0 {
			return "r2"
		}
		return "r1"
	}
	arts := []string{"@a1", "@a2", "@a3", "@a4"}
	mans := []string{"@m1", "@m2", "@s1", "@s2"}
	tags := []string{"t1", "t2"}
	pick := func(l []string) string { return l[g.r.Intn(len(l))] }
	setup := []string{setupBlob, "UPOST r2 digest=sha256:c1 body=c1", mput("r1", "@s1", "@s1")}
	for i := g.r.Intn(5); i > 0; i-- {
		switch g.r.Intn(4) {
		case 0:
			b := pick(arts)
			setup = append(setup, mput(repo(), b, b))
		case 1:
			setup = append(setup, mput(repo(), pick(tags), pick(mans)))
		case 2:
			b := pick(mans)
			setup = append(setup, mput(repo(), b, b))
		case 3:
			setup = append(setup, mput(repo(), pick(tags), pick(arts)))
		}
	}
	req := func() string {
		switch g.r.Intn(13) {
		case 0, 1, 2:
			b := pick(arts)
			return mput(repo(), b, b)
		case 3, 4:
			return mput(repo(), pick(tags), pick(append(append([]string{}, mans...), arts...)))
		case 5:
			b := pick(mans)
			return mput(repo(), b, b)
		case 6:
			return mdel(repo(), pick(tags))
		case 7, 8:
			return mdel(repo(), pick(append(append([]string{}, mans...), arts...)))
		case 9:
			return "TAGS " + repo()
		case 10:
			return mget(repo(), pick(append(append([]string{}, tags...), arts...)))
		case 11:
			return "REFS " + repo() + " sha256:" + pick([]string{"@s1", "@s2"})
		}
		if g.r.Intn(3) == 0 {
			return "GC " + repo()
		}
		return "UPOST " + repo() + " digest=sha256:c2 body=c2"
	}
	cs := ccase{name: "random", setup: setup}
	total := 0
	for i := 0; i < k; i++ {
		th := []string{req()}
		if g.r.Intn(4) == 0 && total+2 <= 5 {
			th = append(th, req())
		}
		total += len(th)
		cs.threads = append(cs.threads, th)
	}
	return cs
}

func (g *cgen) left() bool { return g.budget <= 0 || g.histories < g.budget }

// run: profile "curated" enumerates the curated cases (VERIF_CAP schedules each at most), "random" runs random cases
// under a few random schedules and enumerates the two-thread ones up to a small bound, "all" does both
func (g *cgen) run(profile string) {
	limit := 400
	if v := concEnvInt("VERIF_CAP"); v > 0 {
		limit = v
	}
	only := os.Getenv("VERIF_CASE")
	if profile == "curated" || profile == "all" || profile == "" {
		for _, cs := range g.curated() {
			if only != "" && cs.name != only {
				continue
			}
			if !g.left() {
				break
			}
			g.cases++
			n, all := g.explore(cs, limit)
			if all {
				g.exhCases++
			} else {
				g.capped++
				// beyond the bound: random schedules
				for i := 0; i < n/4+10 && g.left(); i++ {
					g.runCase(cs, g.randomSched(len(cs.threads)))
				}
			}
		}
	}
	if profile == "random" || profile == "all" || profile == "" {
		for g.left() && g.budget > 0 {
			k := 2 + g.r.Intn(3)
			cs := g.randomCase(k)
			g.cases++
			if k == 2 && g.r.Intn(2) == 0 {
				_, all := g.explore(cs, 60)
				if all {
					g.exhCases++
				} else {
					g.capped++
				}
				continue
			}
			for i := 0; i < 4 && g.left(); i++ {
				g.runCase(cs, g.randomSched(k))
			}
		}
	}
}
