package main

// Correspondence harness for the HTTP level: drives the real olareg.Server in-process.
//
//	VERIF_MODE gen|replay  VERIF_OPS VERIF_IMPL VERIF_MON  VERIF_SEED VERIF_N VERIF_PROFILE VERIF_STORE
import (
	"bufio"
	"fmt"
	"github.com/opencontainers/go-digest"
	"math/rand"
	"os"
	"path/filepath"
	"strconv"
)

func main() {
	mode := os.Getenv("VERIF_MODE")
	seed, _ := strconv.Atoi(os.Getenv("VERIF_SEED"))
	n, _ := strconv.Atoi(os.Getenv("VERIF_N"))
	work := os.Getenv("VERIF_WORK")
	if work == "" {
		work = filepath.Join(os.TempDir(), fmt.Sprintf("verif-reg-%d", os.Getpid()))
	}
	work = filepath.Join(work, fmt.Sprintf("reg-%d", os.Getpid()))
	if a, err := filepath.Abs(work); err == nil {
		work = a
	}
	_ = os.MkdirAll(work, 0o755)
	defer os.RemoveAll(work)
	// the process works in a directory of its own that holds look-alike layouts under the repository names the generators
	// use: a store without a root directory has no business with the working directory (C16)
	for _, k := range []string{"VERIF_OPS", "VERIF_IMPL", "VERIF_MON", "VERIF_FACTS", "VERIF_STATS", "VERIF_CUTS", "VERIF_STEPS"} {
		if v := os.Getenv(k); v != "" && !filepath.IsAbs(v) {
			if a, err := filepath.Abs(v); err == nil {
				_ = os.Setenv(k, a)
			}
		}
	}
	decoyCwd(filepath.Join(work, "cwd"))
	implF, err := os.Create(os.Getenv("VERIF_IMPL"))
	if err != nil {
		fmt.Fprintln(os.Stderr, err)
		os.Exit(2)
	}
	monF, err := os.Create(os.Getenv("VERIF_MON"))
	if err != nil {
		fmt.Fprintln(os.Stderr, err)
		os.Exit(2)
	}
	impl := bufio.NewWriterSize(implF, 1<<20)
	monW := bufio.NewWriterSize(monF, 1<<16)
	h := &H{tk: newTokens(), workDir: work}
	h.mon = newMonitors(monW)
	finish := func() {
		h.closeServer()
		impl.Flush()
		monW.Flush()
		implF.Close()
		monF.Close()
		os.RemoveAll(work)
	}
	if mode == "crash" || mode == "crashreplay" || mode == "conc" || mode == "concreplay" {
		// these modes account for every file operation / store call of a request line: monitors must not send requests of their own
		h.mon.noProbes = true
	}
	if mode == "crash" || mode == "crashreplay" {
		// crash-point enumeration on the directory store (file crash.go, build tag vfs: needs the FS shim overlay)
		code := runCrash(h, mode, seed, n, impl)
		finish()
		os.Exit(code)
	}
	if mode == "conc" || mode == "concreplay" {
		// forced schedules of concurrent requests (file conc.go, build tag sched: needs the scheduler overlay)
		code := runConc(h, mode, seed, n, impl)
		finish()
		os.Exit(code)
	}
	if mode == "replay" {
		f, err := os.Open(os.Getenv("VERIF_OPS"))
		if err != nil {
			fmt.Fprintln(os.Stderr, err)
			os.Exit(2)
		}
		sc := bufio.NewScanner(f)
		sc.Buffer(make([]byte, 1<<20), 1<<26)
		for sc.Scan() {
			if out, has := h.apply(sc.Text()); has {
				fmt.Fprintln(impl, out)
			}
		}
		f.Close()
		finish()
		return
	}
	opsF, err := os.Create(os.Getenv("VERIF_OPS"))
	if err != nil {
		fmt.Fprintln(os.Stderr, err)
		os.Exit(2)
	}
	ops := bufio.NewWriterSize(opsF, 1<<20)
	g := &Gen{r: rand.New(rand.NewSource(int64(seed))), h: h, profile: os.Getenv("VERIF_PROFILE"), store: os.Getenv("VERIF_STORE")}
	g.emit = func(line string) string {
		fmt.Fprintln(ops, line)
		out, has := h.apply(line)
		if has {
			fmt.Fprintln(impl, out)
		}
		return out
	}
	g.run(n)
	ops.Flush()
	opsF.Close()
	finish()
	for k, v := range h.mon.count {
		fmt.Fprintf(os.Stderr, "monitor %s fired %d times\n", k, v)
	}
}

// decoyCwd makes `dir` the working directory and fills it with OCI layouts named like the repositories of the generators,
// each holding the blob `outsidesecret` that no history ever pushes
func decoyCwd(dir string) {
	secret := []byte("outsidesecret")
	d := digest.FromBytes(secret)
	for _, r := range []string{"r1", "r2", "r1/sub", "r", "outside", "."} {
		p := filepath.Join(dir, r)
		_ = os.MkdirAll(filepath.Join(p, "blobs", "sha256"), 0o755)
		_ = os.WriteFile(filepath.Join(p, "oci-layout"), []byte(`{"imageLayoutVersion":"1.0.0"}`), 0o644)
		_ = os.WriteFile(filepath.Join(p, "index.json"), []byte(`{"schemaVersion":2,"manifests":[]}`), 0o644)
		_ = os.WriteFile(filepath.Join(p, "blobs", "sha256", d.Encoded()), secret, 0o644)
	}
	_ = os.Chdir(dir)
}
