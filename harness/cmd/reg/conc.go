//go:build sched

package main

// Conc mode (C11): forced schedules of concurrent requests at store-action granularity.
//
// A concurrent history is a setup part of ordinary lines, then
//
//	PAR k                      k threads follow
//	T<i> <request line>        a request of thread i (several lines with the same i: the thread issues them in order)
//	SCHED t t t ...            which thread advances to its next gate; finished or blocked threads are skipped; when the
//	                           list is used up the lowest-numbered enabled thread runs, one action at a time
//	ANS i[.j]                  the answer of request j (default 1) of thread i
//	<ordinary read lines>      the quiescent observation
//	LIN                        the orders of the requests, consistent with their real-time order, whose sequential
//	                           execution on the state after the setup gives exactly these answers and this observation
//
// The answer of SCHED lists the schedule that was executed and the store actions of every request, so that a schedule
// is replayable and comparable with the model (Conc.exec in lean/Conc, driver concdriver).
//
// Requests of a PAR block are executed by this file's own executor (the request carries its thread id in its context and
// nothing of the harness' shared tables is touched off the controller goroutine); setup and observation lines go
// through H.apply.  Monitors (VERIF_MON): C11.not-linearizable, C11.torn-read, C11.lost-referrer, C11.ghost-referrer,
// C11.double-ack, C11.lost-tag, C11.tag-never-pushed, C11.lost-manifest, C11.deadlock.
import (
	"bufio"
	"bytes"
	"context"
	"encoding/json"
	"fmt"
	"io"
	"math/rand"
	"net/http"
	"net/http/httptest"
	"net/url"
	"os"
	"path/filepath"
	"sort"
	"strconv"
	"strings"
	"sync"

	"github.com/olareg/olareg"
	"github.com/olareg/olareg/types"
)

// ------------------------------------------------------------------ requests of a PAR block

type parReq struct {
	tid, idx int
	line     string
	kind     string
	repo     string
	method   string
	url      string
	hdr      map[string][]string
	body     []byte
	hasBody  bool
	mode     string
	bad      bool
	// results
	ans      string
	resp     Resp
	trace    []string
	invoke   int // number of executed steps when the request was issued
	complete int // number of executed steps when it returned (0 = not yet)
	done     bool
}

func (r *parReq) id() string { return fmt.Sprintf("T%d.%d", r.tid, r.idx+1) }

var allAccept = "ocim,ocii,dockm,dockl"

// prepare resolves the tokens of a request line (on the controller goroutine: the token table is not thread safe)
func (h *H) prepare(r *parReq) {
	t := strings.Fields(r.line)
	if len(t) < 2 {
		r.bad = true
		return
	}
	op, a := t[0], t[1:]
	r.kind, r.repo = op, a[0]
	r.hdr = map[string][]string{}
	q := url.Values{}
	switch op {
	case "MPUT":
		if len(a) < 2 {
			r.bad = true
			return
		}
		if v := kv(a, "qd"); v != "" {
			q.Set("digest", h.tk.realDigest(v))
		}
		if ct := kv(a, "ct"); ct != "" {
			r.hdr["Content-Type"] = []string{mtRealOf(ct)}
		}
		r.body, r.hasBody = h.tk.content(kv(a, "body")), true
		r.method, r.url = "PUT", "/v2/"+a[0]+"/manifests/"+h.refArg(a[1])
	case "MGET", "MHEAD":
		if len(a) < 2 {
			r.bad = true
			return
		}
		for _, x := range csv(kv(a, "accept")) {
			r.hdr["Accept"] = append(r.hdr["Accept"], mtRealOf(x))
		}
		r.method, r.mode = "GET", "get"
		if op == "MHEAD" {
			r.method, r.mode = "HEAD", "head"
		}
		r.url = "/v2/" + a[0] + "/manifests/" + h.refArg(a[1])
	case "MDEL":
		if len(a) < 2 {
			r.bad = true
			return
		}
		r.method, r.url = "DELETE", "/v2/"+a[0]+"/manifests/"+h.refArg(a[1])
	case "TAGS":
		r.method, r.url, r.mode = "GET", "/v2/"+a[0]+"/tags/list", "tags"
	case "REFS":
		if len(a) < 2 {
			r.bad = true
			return
		}
		if v := kv(a, "at"); v != "" {
			q.Set("artifactType", mtRealOf(v))
		}
		r.method, r.url, r.mode = "GET", "/v2/"+a[0]+"/referrers/"+h.tk.realDigest(a[1]), "refs"
	case "BGET", "BHEAD":
		if len(a) < 2 {
			r.bad = true
			return
		}
		r.method, r.mode = "GET", "get"
		if op == "BHEAD" {
			r.method, r.mode = "HEAD", "head"
		}
		r.url = "/v2/" + a[0] + "/blobs/" + h.tk.realDigest(a[1])
	case "BDEL":
		if len(a) < 2 {
			r.bad = true
			return
		}
		r.method, r.url = "DELETE", "/v2/"+a[0]+"/blobs/"+h.tk.realDigest(a[1])
	case "UPOST":
		// monolithic upload only: UPOST <repo> digest=<d> body=<c>
		if v := kv(a, "digest"); v != "" {
			q.Set("digest", h.tk.realDigest(v))
		}
		r.body, r.hasBody = h.tk.content(kv(a, "body")), true
		r.method, r.url = "POST", "/v2/"+a[0]+"/blobs/uploads/"
	case "GC":
	default:
		r.bad = true
	}
	if len(q) > 0 {
		r.url += "?" + q.Encode()
	}
}

// serve runs the request on the server (any goroutine; touches nothing shared but the server)
func (h *H) serve(r *parReq, tid int, gate func(tid int, call, repo string)) (*httptest.ResponseRecorder, string) {
	if r.bad {
		return nil, "bad-op"
	}
	if r.kind == "GC" {
		if gate != nil && tid != 0 {
			gate(tid, "GC", r.repo)
		}
		if err := h.srv.VerifGC(r.repo); err != nil {
			return nil, "gc-error"
		}
		return nil, "gc-ok"
	}
	var rdr io.Reader
	if r.hasBody {
		rdr = bytes.NewReader(r.body)
	}
	var req *http.Request
	func() {
		defer func() {
			if recover() != nil {
				req = nil
			}
		}()
		req = httptest.NewRequest(r.method, r.url, rdr)
	}()
	if req == nil {
		return nil, Resp{Status: 998}.line()
	}
	for k, vs := range r.hdr {
		for _, v := range vs {
			req.Header.Add(k, v)
		}
	}
	if tid != 0 {
		req = req.WithContext(context.WithValue(req.Context(), olareg.VerifTidKey{}, tid))
	}
	rr := httptest.NewRecorder()
	panicked := false
	func() {
		defer func() {
			if recover() != nil {
				panicked = true
			}
		}()
		h.srv.ServeHTTP(rr, req)
	}()
	if panicked {
		return nil, Resp{Status: 999, Body: "-"}.line()
	}
	return rr, ""
}

// canon is the canonical answer of H.do for the request kinds of a PAR block (controller goroutine only)
func (h *H) canon(r *parReq, rr *httptest.ResponseRecorder) Resp {
	res := rr.Result()
	out := Resp{Status: res.StatusCode, Body: "-", raw: rr.Body.Bytes(), header: res.Header}
	if out.Status >= 400 {
		var e struct {
			Errors []struct{ Code string }
		}
		if json.Unmarshal(rr.Body.Bytes(), &e) == nil && len(e.Errors) > 0 {
			out.Code = e.Errors[0].Code
		}
	}
	out.Loc = h.canonLoc(res.Header.Get("Location"))
	out.Range = res.Header.Get("Range")
	out.Dcd = h.tk.tokDigest(res.Header.Get("Docker-Content-Digest"))
	out.Subj = h.tk.tokDigest(res.Header.Get("OCI-Subject"))
	out.Filt = res.Header.Get("OCI-Filters-Applied")
	if out.Status == 200 || out.Status == 206 {
		if r.mode == "get" || r.mode == "head" {
			out.Cl = res.Header.Get("Content-Length")
		}
		out.CRange = strings.ReplaceAll(res.Header.Get("Content-Range"), " ", "")
		switch r.mode {
		case "head":
			out.Ct = mtToken(res.Header.Get("Content-Type"))
		case "get":
			out.Body = "=" + h.tk.contentName(rr.Body.Bytes())
			out.Ct = mtToken(res.Header.Get("Content-Type"))
		case "tags":
			var tl types.TagList
			_ = json.Unmarshal(rr.Body.Bytes(), &tl)
			out.Body = "[" + strings.Join(tl.Tags, ",") + "]"
		case "refs":
			var idx types.Index
			_ = json.Unmarshal(rr.Body.Bytes(), &idx)
			out.Body = "[" + strings.Join(h.tk.descList(idx.Manifests), ",") + "]"
			out.Ct = mtToken(res.Header.Get("Content-Type"))
		}
	}
	return out
}

// seqDo runs one PAR request synchronously and unscheduled (the sequential specification is the implementation itself)
func (h *H) seqDo(r *parReq) string {
	rr, ans := h.serve(r, 0, nil)
	if rr == nil {
		return ans
	}
	return h.canon(r, rr).line()
}

// ------------------------------------------------------------------ the controller

type cmsg struct {
	tid  int
	kind string // gate | reqdone | alldone
	call string
	repo string
	mu   any
	req  *parReq
	rr   *httptest.ResponseRecorder
	ans  string
}

type ctl struct {
	h        *H
	msg      chan cmsg
	permit   map[int]chan struct{}
	pending  map[int]string
	pendRepo map[int]string
	pendMu   map[int]any
	owner    map[any]int         // lock -> thread that holds it for writing
	readers  map[any]map[int]int // lock -> threads that hold it for reading
	inflight map[string]map[int]int
	cur      int
	curReq   map[int]*parReq
	finished map[int]bool
	tids     []int
	eff      []int
	enabled  [][]int // enabled threads before each executed step
	deadlock bool
}

func (c *ctl) gate(tid int, call, repo string) {
	if strings.HasPrefix(call, "-") {
		// notification from the running thread (the controller is waiting for its next message)
		if call == "-Done" {
			if m := c.inflight[repo]; m != nil && m[tid] > 0 {
				m[tid]--
			}
		}
		return
	}
	ch := c.permit[tid]
	c.msg <- cmsg{tid: tid, kind: "gate", call: call, repo: repo}
	<-ch
}

func (c *ctl) lockHook(ev string, m any) {
	tid := c.cur
	if tid == 0 {
		return
	}
	switch ev {
	case "lock", "rlock":
		call := "Lock"
		if ev == "rlock" {
			call = "RLock"
		}
		ch := c.permit[tid]
		c.msg <- cmsg{tid: tid, kind: "gate", call: call, mu: m}
		<-ch
	case "unlock":
		delete(c.owner, m)
	case "runlock":
		if rm := c.readers[m]; rm != nil && rm[tid] > 0 {
			rm[tid]--
			if rm[tid] == 0 {
				delete(rm, tid)
			}
		}
	}
}

func (c *ctl) isEnabled(t int) bool {
	if c.finished[t] {
		return false
	}
	switch c.pending[t] {
	case "":
		return false
	case "Lock":
		return c.owner[c.pendMu[t]] == 0 && len(c.readers[c.pendMu[t]]) == 0
	case "RLock":
		return c.owner[c.pendMu[t]] == 0
	case "GC":
		for u, n := range c.inflight[c.pendRepo[t]] {
			if u != t && n > 0 {
				return false
			}
		}
		return true
	}
	return true
}

func (c *ctl) enabledSet() []int {
	var out []int
	for _, t := range c.tids {
		if c.isEnabled(t) {
			out = append(out, t)
		}
	}
	return out
}

// await receives the messages of the running thread until it is parked again or has issued all its requests
func (c *ctl) await(t int) {
	for {
		m := <-c.msg
		switch m.kind {
		case "gate":
			c.pending[m.tid], c.pendRepo[m.tid], c.pendMu[m.tid] = m.call, m.repo, m.mu
			return
		case "reqstart":
			m.req.invoke = len(c.eff)
			c.curReq[m.tid] = m.req
		case "reqdone":
			r := m.req
			if m.rr != nil {
				r.resp = c.h.canon(r, m.rr)
				r.ans = r.resp.line()
			} else {
				r.ans = m.ans
			}
			r.complete, r.done = len(c.eff), true
			for _, im := range c.inflight {
				delete(im, m.tid)
			}
		case "alldone":
			c.finished[m.tid] = true
			c.pending[m.tid] = ""
			return
		}
	}
}

func (c *ctl) step(t int) {
	c.enabled = append(c.enabled, c.enabledSet())
	c.eff = append(c.eff, t)
	call := c.pending[t]
	if r := c.curReq[t]; r != nil {
		r.trace = append(r.trace, call)
	}
	switch call {
	case "Lock":
		c.owner[c.pendMu[t]] = t
	case "RLock":
		if c.readers[c.pendMu[t]] == nil {
			c.readers[c.pendMu[t]] = map[int]int{}
		}
		c.readers[c.pendMu[t]][t]++
	case "RepoGet":
		if c.inflight[c.pendRepo[t]] == nil {
			c.inflight[c.pendRepo[t]] = map[int]int{}
		}
		c.inflight[c.pendRepo[t]][t]++
	}
	c.pending[t] = ""
	c.cur = t
	c.permit[t] <- struct{}{}
	c.await(t)
	c.cur = 0
}

// runPar executes the threads under the schedule; returns false on a deadlock (threads left, none enabled)
func (h *H) runPar(threads map[int][]*parReq, sched []int) *ctl {
	c := &ctl{h: h, msg: make(chan cmsg), permit: map[int]chan struct{}{}, pending: map[int]string{}, pendRepo: map[int]string{},
		pendMu: map[int]any{}, owner: map[any]int{}, readers: map[any]map[int]int{}, inflight: map[string]map[int]int{},
		curReq: map[int]*parReq{}, finished: map[int]bool{}}
	for t := range threads {
		c.tids = append(c.tids, t)
	}
	sort.Ints(c.tids)
	h.srv.VerifWrapStore(c.gate)
	olareg.VerifLockHook = c.lockHook
	defer func() {
		olareg.VerifLockHook = nil
		h.srv.VerifUnwrapStore()
	}()
	for _, t := range c.tids {
		c.permit[t] = make(chan struct{})
	}
	for _, t := range c.tids {
		c.cur = t
		go func(t int, reqs []*parReq) {
			for _, r := range reqs {
				c.msg <- cmsg{tid: t, kind: "reqstart", req: r}
				rr, ans := h.serve(r, t, c.gate)
				c.msg <- cmsg{tid: t, kind: "reqdone", req: r, rr: rr, ans: ans}
			}
			c.msg <- cmsg{tid: t, kind: "alldone"}
		}(t, threads[t])
		c.await(t)
		c.cur = 0
	}
	for _, t := range sched {
		if c.isEnabled(t) {
			c.step(t)
		}
	}
	for {
		en := c.enabledSet()
		if len(en) == 0 {
			break
		}
		c.step(en[0])
	}
	for _, t := range c.tids {
		if !c.finished[t] {
			c.deadlock = true
		}
	}
	return c
}

// ------------------------------------------------------------------ the interpreter of a concurrent history

type concState struct {
	setup    []string // ordinary lines since NEW (inclusive), before PAR
	setupAns []string
	inPar    bool
	ran      bool
	threads  map[int][]*parReq
	all      []*parReq
	obs      []string // observation lines after the run
	obsAns   []string
	parLine  int
	schedStr string
}

type Conc struct {
	h       *H
	st      concState
	seqCach map[string][]string
	linRuns int
	stats   map[string]int
	lastCtl *ctl
}

func newConc(h *H) *Conc {
	return &Conc{h: h, seqCach: map[string][]string{}, stats: map[string]int{}}
}

func ints(l []int) string {
	s := make([]string, len(l))
	for i, x := range l {
		s[i] = strconv.Itoa(x)
	}
	return strings.Join(s, " ")
}

func (c *Conc) runSched(sched []int) string {
	h := c.h
	c.st.ran = true
	for _, r := range c.st.all {
		h.prepare(r)
	}
	if h.srv == nil {
		h.newHistory(nil)
	}
	ct := h.runPar(c.st.threads, sched)
	// the shadow state of the sequential monitors is not maintained through a concurrent part
	for _, r := range c.st.all {
		rs := h.mon.repo(r.repo)
		rs.dirty, rs.refDirty = true, true
	}
	parts := []string{}
	tids := []int{}
	for t := range c.st.threads {
		tids = append(tids, t)
	}
	sort.Ints(tids)
	for _, t := range tids {
		rq := []string{}
		for _, r := range c.st.threads[t] {
			rq = append(rq, strings.Join(r.trace, ","))
		}
		parts = append(parts, fmt.Sprintf("T%d:%s", t, strings.Join(rq, ";")))
	}
	c.st.schedStr = ints(ct.eff)
	if ct.deadlock {
		h.mon.flag(h, "C11.deadlock", "threads left and none enabled after "+c.st.schedStr)
		parts = append(parts, "DEADLOCK")
	}
	c.lastCtl = ct
	return "sched eff=" + strings.ReplaceAll(c.st.schedStr, " ", ",") + " | " + strings.Join(parts, " | ")
}

func (c *Conc) ensureRan() {
	if c.st.inPar && !c.st.ran && len(c.st.all) > 0 {
		c.runSched(nil)
	}
}

// apply interprets one line of a concurrent history
func (c *Conc) apply(line string) (string, bool) {
	h := c.h
	t := strings.Fields(line)
	if len(t) == 0 {
		h.lineNo++
		return "bad-op", true
	}
	op := t[0]
	switch {
	case op == "NEW":
		c.st = concState{}
		out, has := h.apply(line)
		c.st.setup, c.st.setupAns = []string{line}, []string{out}
		return out, has
	case op == "PAR":
		h.lineNo++
		c.st.inPar, c.st.ran = true, false
		c.st.threads, c.st.all, c.st.obs, c.st.obsAns = map[int][]*parReq{}, nil, nil, nil
		c.st.parLine = h.lineNo
		return "par", true
	case len(op) >= 2 && op[0] == 'T' && op[1] >= '0' && op[1] <= '9' && !c.st.ran:
		h.lineNo++
		tid, err := strconv.Atoi(op[1:])
		if err != nil || tid <= 0 || len(t) < 2 {
			return "bad-op", true
		}
		if !c.st.inPar {
			c.st.inPar = true
			c.st.threads = map[int][]*parReq{}
		}
		r := &parReq{tid: tid, idx: len(c.st.threads[tid]), line: strings.Join(t[1:], " ")}
		c.st.threads[tid] = append(c.st.threads[tid], r)
		c.st.all = append(c.st.all, r)
		return "queued", true
	case op == "SCHED":
		h.lineNo++
		if !c.st.inPar || c.st.ran || len(c.st.all) == 0 {
			return "sched none", true
		}
		var sched []int
		for _, x := range t[1:] {
			if n, err := strconv.Atoi(x); err == nil {
				sched = append(sched, n)
			}
		}
		return c.runSched(sched), true
	case op == "ANS":
		h.lineNo++
		c.ensureRan()
		if len(t) < 2 {
			return "none", true
		}
		p := strings.SplitN(t[1], ".", 2)
		tid, _ := strconv.Atoi(p[0])
		j := 1
		if len(p) == 2 {
			j, _ = strconv.Atoi(p[1])
		}
		if rs := c.st.threads[tid]; j >= 1 && j <= len(rs) && rs[j-1].done {
			return rs[j-1].ans, true
		}
		return "none", true
	case op == "LIN":
		h.lineNo++
		c.ensureRan()
		if !c.st.ran {
			return "lin none", true
		}
		return c.lin(), true
	}
	c.ensureRan()
	out, has := h.apply(line)
	if !c.st.inPar {
		c.st.setup = append(c.st.setup, line)
		c.st.setupAns = append(c.st.setupAns, out)
	} else if has {
		c.st.obs = append(c.st.obs, line)
		c.st.obsAns = append(c.st.obsAns, out)
	}
	return out, has
}

// ------------------------------------------------------------------ sequential orders (the specification is the implementation run one request at a time)

// precedes: x returned before y was issued
func precedes(x, y *parReq) bool {
	if x == y {
		return false
	}
	if x.tid == y.tid {
		return x.idx < y.idx
	}
	return x.done && x.complete <= y.invoke && y.idx > 0
}

func ordersOf(reqs []*parReq) [][]*parReq {
	var out [][]*parReq
	used := make([]bool, len(reqs))
	var cur []*parReq
	var rec func()
	rec = func() {
		if len(cur) == len(reqs) {
			out = append(out, append([]*parReq{}, cur...))
			return
		}
		for i, r := range reqs {
			if used[i] {
				continue
			}
			ok := true
			for j, o := range reqs {
				if !used[j] && j != i && precedes(o, r) {
					ok = false
				}
			}
			if !ok {
				continue
			}
			used[i] = true
			cur = append(cur, r)
			rec()
			cur = cur[:len(cur)-1]
			used[i] = false
		}
	}
	rec()
	return out
}

// seqRun: answers of the requests `seq` run one at a time on a fresh server after the setup, followed by the answers
// of the observation lines (when withObs)
func (c *Conc) seqRun(seq []*parReq, withObs bool) []string {
	ids := []string{}
	for _, r := range seq {
		ids = append(ids, r.id()+"="+r.line)
	}
	key := strings.Join(c.st.setup, "\n") + "\x00" + strings.Join(ids, "\n") + "\x00"
	if withObs {
		key += strings.Join(c.st.obs, "\n")
	}
	if v, ok := c.seqCach[key]; ok {
		return v
	}
	c.linRuns++
	h2 := &H{tk: c.h.tk, workDir: filepath.Join(c.h.workDir, "lin")}
	_ = os.MkdirAll(h2.workDir, 0o755)
	h2.mon = newMonitors(nil)
	for _, l := range c.st.setup {
		h2.apply(l)
	}
	if h2.srv == nil {
		h2.newHistory(nil)
	}
	var out []string
	for _, r := range seq {
		out = append(out, h2.seqDo(r))
	}
	if withObs {
		for _, l := range c.st.obs {
			a, has := h2.apply(l)
			if has {
				out = append(out, a)
			}
		}
	}
	h2.closeServer()
	if h2.root != "" {
		_ = os.RemoveAll(h2.root)
	}
	if len(c.seqCach) > 20000 {
		c.seqCach = map[string][]string{}
	}
	c.seqCach[key] = out
	return out
}

func isRead(kind string) bool {
	switch kind {
	case "MGET", "MHEAD", "TAGS", "REFS", "BGET", "BHEAD":
		return true
	}
	return false
}

func (c *Conc) lin() string {
	h := c.h
	reqs := c.st.all
	for _, r := range reqs {
		if !r.done {
			return "lin incomplete"
		}
	}
	orders := ordersOf(reqs)
	match := []string{}
	for _, o := range orders {
		res := c.seqRun(o, true)
		ok := len(res) == len(o)+len(c.st.obsAns)
		for i := 0; ok && i < len(o); i++ {
			ok = res[i] == o[i].ans
		}
		for i := 0; ok && i < len(c.st.obsAns); i++ {
			ok = res[len(o)+i] == c.st.obsAns[i]
		}
		if ok {
			ids := []string{}
			for _, r := range o {
				ids = append(ids, r.id())
			}
			match = append(match, strings.Join(ids, ">"))
		}
	}
	sort.Strings(match)
	c.stats["lin-checked"]++
	if len(match) == 0 {
		c.stats["not-linearizable"]++
		h.mon.flag(h, "C11.not-linearizable", fmt.Sprintf("no order of %d (of %d requests) explains the answers and the quiescent observation; schedule %s; %s",
			len(orders), len(reqs), c.st.schedStr, c.describe()))
		c.tornReads()
	}
	c.statement()
	return fmt.Sprintf("lin orders=%d match=%s", len(orders), strings.Join(match, "|"))
}

func (c *Conc) describe() string {
	p := []string{}
	for _, r := range c.st.all {
		p = append(p, fmt.Sprintf("%s %s -> %s", r.id(), r.line, strings.SplitN(r.ans, " ", 2)[0]))
	}
	return strings.Join(p, " ; ")
}

// tornReads: a read whose answer no sequential execution of a set of the other requests (closed under the real-time
// order, containing everything that returned before the read was issued) followed by the read produces
func (c *Conc) tornReads() {
	reqs := c.st.all
	for _, x := range reqs {
		if !isRead(x.kind) {
			continue
		}
		var others []*parReq
		for _, y := range reqs {
			if y != x && !precedes(x, y) {
				others = append(others, y)
			}
		}
		explained := false
		for mask := 0; mask < 1<<len(others) && !explained; mask++ {
			var set []*parReq
			for i, y := range others {
				if mask&(1<<i) != 0 {
					set = append(set, y)
				}
			}
			closed := true
			for _, y := range others {
				in := false
				for _, z := range set {
					in = in || z == y
				}
				if in {
					continue
				}
				if precedes(y, x) {
					closed = false
				}
				for _, z := range set {
					if precedes(y, z) {
						closed = false
					}
				}
			}
			if !closed {
				continue
			}
			for _, o := range ordersOf(set) {
				res := c.seqRun(append(append([]*parReq{}, o...), x), false)
				if len(res) == len(o)+1 && res[len(o)] == x.ans {
					explained = true
					break
				}
			}
		}
		if !explained {
			c.h.mon.flag(c.h, "C11.torn-read", fmt.Sprintf("%s %s answered %q: no sequential order of the completed and in-flight requests gives this answer; schedule %s",
				x.id(), x.line, x.ans, c.st.schedStr))
		}
	}
}

// statement: the examples the property names, judged on acknowledgements and the quiescent state only
func (c *Conc) statement() {
	h := c.h
	type push struct {
		r    *parReq // nil = setup
		pos  int
		repo string
		ref  string
		body string
		real string
	}
	type del struct {
		r    *parReq
		pos  int
		repo string
		ref  string
	}
	var pushes []push
	var dels []del
	spoiled := map[string]bool{} // repositories with a collection or a blob delete: retention is not judged here
	pos := 0
	note := func(line string, r *parReq, ans string) {
		t := strings.Fields(line)
		if len(t) < 2 {
			return
		}
		pos++
		switch t[0] {
		case "MPUT":
			if len(t) >= 3 && strings.HasPrefix(ans, "201 ") {
				body := kv(t[2:], "body")
				alg := "sha256"
				if strings.Contains(t[2], ":") {
					alg = strings.SplitN(t[2], ":", 2)[0]
				} else if qd := kv(t[2:], "qd"); qd != "" {
					alg = strings.SplitN(qd, ":", 2)[0]
				}
				pushes = append(pushes, push{r: r, pos: pos, repo: t[1], ref: t[2], body: body, real: h.tk.realDigest(alg + ":" + body)})
			}
		case "MDEL":
			if len(t) >= 3 && strings.HasPrefix(ans, "202 ") {
				dels = append(dels, del{r: r, pos: pos, repo: t[1], ref: h.refArg(t[2])})
			}
		case "GC", "BDEL", "RESTART":
			spoiled[t[1]] = true
		}
	}
	// the setup was run through H.apply on this server; its answers are those of a sequential run
	sa := c.st.setupAns
	for i, l := range c.st.setup {
		if i < len(sa) {
			note(l, nil, sa[i])
		}
	}
	for _, r := range c.st.all {
		note(r.line, r, r.ans)
	}
	// may the delete d have removed what the push p acknowledged?  yes unless it returned before p was issued
	after := func(dr *parReq, dpos int, pr *parReq, ppos int) bool {
		if dr == nil && pr == nil {
			return dpos > ppos
		}
		if dr == nil {
			return false // setup delete, push in the concurrent part
		}
		if pr == nil {
			return true
		}
		return !precedes(dr, pr)
	}
	acc := map[string][]string{"Accept": {mtReal["ocim"], mtReal["ocii"], mtReal["dockm"], mtReal["dockl"]}}
	for _, p := range pushes {
		if spoiled[p.repo] {
			continue
		}
		deleted, tagTouched := false, false
		isTag := types.RefTagRE.MatchString(p.ref)
		for _, d := range dels {
			if d.repo != p.repo || !after(d.r, d.pos, p.r, p.pos) {
				continue
			}
			if d.ref == p.real {
				deleted = true
			}
			if isTag && d.ref == p.ref {
				tagTouched = true
			}
		}
		for _, p2 := range pushes {
			if isTag && p2.repo == p.repo && p2.ref == p.ref && p2.real != p.real && after(p2.r, p2.pos, p.r, p.pos) {
				tagTouched = true // the tag may have been moved
			}
		}
		if deleted {
			continue
		}
		// an acknowledged, undeleted manifest is present
		g := h.do("GET", "/v2/"+p.repo+"/manifests/"+p.real, reqOpt{mode: "get", hdr: acc})
		if g.Status != 200 {
			h.mon.flag(h, "C11.lost-manifest", fmt.Sprintf("%s was acknowledged in %s and never deleted, GET answers %d; schedule %s", h.tk.tokDigest(p.real), p.repo, g.Status, c.st.schedStr))
		}
		// an acknowledged, undeleted artifact is in the referrers list of its subject
		if bi := h.bodyInfo(p.body); bi.subj != "" && validDigestTok(bi.subj) && *h.conf.API.Referrer.Enabled && (bi.kind == "image" || bi.kind == "index") {
			rr := h.do("GET", "/v2/"+p.repo+"/referrers/"+h.tk.realDigest(bi.subj), reqOpt{mode: "refs"})
			if !strings.Contains(rr.Body, h.tk.tokDigest(p.real)+"/") {
				h.mon.flag(h, "C11.lost-referrer", fmt.Sprintf("artifact %s was acknowledged in %s and never deleted, the referrers of %s list %s; schedule %s",
					h.tk.tokDigest(p.real), p.repo, bi.subj, rr.Body, c.st.schedStr))
			}
		}
		// an acknowledged tag that nobody deleted or moved resolves to the pushed manifest
		if isTag && !tagTouched {
			g := h.do("GET", "/v2/"+p.repo+"/manifests/"+p.ref, reqOpt{mode: "get", hdr: acc})
			if g.Status != 200 {
				h.mon.flag(h, "C11.lost-tag", fmt.Sprintf("tag %s was acknowledged in %s and never deleted, GET answers %d; schedule %s", p.ref, p.repo, g.Status, c.st.schedStr))
			} else if g.header.Get("Docker-Content-Digest") != p.real {
				h.mon.flag(h, "C11.tag-never-pushed", fmt.Sprintf("tag %s of %s resolves to %s, pushed was %s; schedule %s", p.ref, p.repo, g.Dcd, h.tk.tokDigest(p.real), c.st.schedStr))
			}
		}
	}
	// acknowledged deletes need something to delete: one at a time, a delete answers 202 only if a push came since the
	// last one.  More acknowledged deletes than acknowledged pushes of a digest or tag: two deletes were acknowledged for
	// one presence (double-ack).  As many: the last request in any sequential order is a delete, so the manifest is gone
	// and, being gone, is no referrer of its subject (ghost-referrer)
	type rk struct{ repo, ref string }
	nPush, nDel := map[rk]int{}, map[rk]int{}
	subjOf := map[rk]string{}
	for _, p := range pushes {
		nPush[rk{p.repo, p.real}]++
		if types.RefTagRE.MatchString(p.ref) {
			nPush[rk{p.repo, p.ref}]++
		}
		if bi := h.bodyInfo(p.body); bi.subj != "" && validDigestTok(bi.subj) && (bi.kind == "image" || bi.kind == "index") {
			subjOf[rk{p.repo, p.real}] = bi.subj
		}
	}
	for _, d := range dels {
		nDel[rk{d.repo, d.ref}]++
	}
	for k, nd := range nDel {
		if spoiled[k.repo] || nPush[k] == 0 {
			continue
		}
		if nd > nPush[k] {
			h.mon.flag(h, "C11.double-ack", fmt.Sprintf("%d deletes of %s in %s were acknowledged, %d pushes; schedule %s", nd, h.tk.tokDigest(k.ref), k.repo, nPush[k], c.st.schedStr))
		}
		if sj := subjOf[k]; sj != "" && nd >= nPush[k] && *h.conf.API.Referrer.Enabled {
			rr := h.do("GET", "/v2/"+k.repo+"/referrers/"+h.tk.realDigest(sj), reqOpt{mode: "refs"})
			if strings.Contains(rr.Body, h.tk.tokDigest(k.ref)+"/") {
				h.mon.flag(h, "C11.ghost-referrer", fmt.Sprintf("artifact %s of %s: %d pushes and %d deletes were acknowledged, so it is deleted, and the referrers of %s still list it: %s; schedule %s",
					h.tk.tokDigest(k.ref), k.repo, nPush[k], nd, sj, rr.Body, c.st.schedStr))
			}
		}
	}
	// a tag resolves to one of the manifests pushed under it, and a tag pushed concurrently by several clients and not
	// deleted resolves
	type tk struct{ repo, tag string }
	under := map[tk]map[string]bool{}
	for _, p := range pushes {
		if types.RefTagRE.MatchString(p.ref) {
			k := tk{p.repo, p.ref}
			if under[k] == nil {
				under[k] = map[string]bool{}
			}
			under[k][p.real] = true
		}
	}
	repos := map[string]bool{}
	for _, p := range pushes {
		repos[p.repo] = true
	}
	for repo := range repos {
		tl := h.do("GET", "/v2/"+repo+"/tags/list", reqOpt{mode: "tags"})
		if tl.Status != 200 || tl.Body == "[]" {
			continue
		}
		for _, tag := range strings.Split(strings.Trim(tl.Body, "[]"), ",") {
			g := h.do("GET", "/v2/"+repo+"/manifests/"+tag, reqOpt{mode: "get", hdr: acc})
			if g.Status == 200 && !under[tk{repo, tag}][g.header.Get("Docker-Content-Digest")] {
				h.mon.flag(h, "C11.tag-never-pushed", fmt.Sprintf("tag %s of %s resolves to %s which was never pushed under it; schedule %s", tag, repo, g.Dcd, c.st.schedStr))
			}
		}
	}
	for k, ds := range under {
		if spoiled[k.repo] {
			continue
		}
		touched := false
		for _, d := range dels {
			if d.repo == k.repo && (d.ref == k.tag || ds[d.ref]) && d.r != nil {
				touched = true
			}
		}
		par := 0
		for _, p := range pushes {
			if p.r != nil && p.repo == k.repo && p.ref == k.tag {
				par++
			}
		}
		if par >= 2 && !touched {
			g := h.do("GET", "/v2/"+k.repo+"/manifests/"+k.tag, reqOpt{mode: "get", hdr: acc})
			if g.Status != 200 {
				h.mon.flag(h, "C11.lost-tag", fmt.Sprintf("tag %s of %s was pushed by %d clients concurrently and resolves to nothing (%d); schedule %s", k.tag, k.repo, par, g.Status, c.st.schedStr))
			}
		}
	}
}

// ------------------------------------------------------------------ modes

func runConc(h *H, mode string, seed, n int, impl *bufio.Writer) int {
	c := newConc(h)
	// main.go routes only the modes conc and concreplay here; the other uses are selected by VERIF_CONC
	if sub := os.Getenv("VERIF_CONC"); mode == "conc" && sub != "" {
		mode = "conc" + sub
	}
	switch mode {
	case "concreplay":
		f, err := os.Open(os.Getenv("VERIF_OPS"))
		if err != nil {
			fmt.Fprintln(os.Stderr, err)
			return 2
		}
		sc := bufio.NewScanner(f)
		sc.Buffer(make([]byte, 1<<20), 1<<26)
		for sc.Scan() {
			if out, has := c.apply(sc.Text()); has {
				fmt.Fprintln(impl, out)
			}
		}
		f.Close()
		return 0
	case "conc":
		opsF, err := os.Create(os.Getenv("VERIF_OPS"))
		if err != nil {
			fmt.Fprintln(os.Stderr, err)
			return 2
		}
		ops := bufio.NewWriterSize(opsF, 1<<20)
		g := &cgen{c: c, r: rand.New(rand.NewSource(int64(seed))), store: os.Getenv("VERIF_STORE"), budget: n}
		g.emit = func(line string) string {
			fmt.Fprintln(ops, line)
			out, has := c.apply(line)
			if has {
				fmt.Fprintln(impl, out)
			}
			return out
		}
		g.emitSched = func(prefix []int) string {
			out, _ := c.apply("SCHED " + ints(prefix))
			fmt.Fprintln(ops, "SCHED "+c.st.schedStr)
			fmt.Fprintln(impl, out)
			return out
		}
		g.run(os.Getenv("VERIF_PROFILE"))
		ops.Flush()
		opsF.Close()
		st := map[string]int{"histories": g.histories, "cases": g.cases, "exhaustive_cases": g.exhCases, "capped_cases": g.capped,
			"lin_sequential_runs": c.linRuns, "lin_checked": c.stats["lin-checked"], "not_linearizable": c.stats["not-linearizable"]}
		b, _ := json.Marshal(st)
		fmt.Fprintln(os.Stderr, "CONCSTATS "+string(b))
		for k, v := range h.mon.count {
			fmt.Fprintf(os.Stderr, "monitor %s fired %d times\n", k, v)
		}
		return 0
	case "concstress":
		return runStress(h, c, seed, n)
	case "concprobe":
		return runProbe(h, c, impl)
	case "concfirsttouch":
		return runFirstTouch(h, c, seed, n)
	}
	return 2
}

// ------------------------------------------------------------------ probe: where does the tree under test take a mutex?

// runProbe prints the store-action trace of an artifact push and of a delete by digest run alone: the position of
// Lock in them tells which lock discipline the tree has (none, around the referrers update, around the whole commit)
func runProbe(h *H, c *Conc, impl *bufio.Writer) int {
	lines := []string{"NEW store=mem",
		"DEF @ps image mt=ocim cfg=sha256:c1 cfgmt=cfg layers= subj= at= ann=probe=s",
		"DEF @pa image mt=ocim cfg=sha256:c1 cfgmt=cfg layers= subj=sha256:@ps at=x/a ann=probe=a",
		"UPOST r1 digest=sha256:c1 body=c1", "MPUT r1 sha256:@ps ct=ocim body=@ps",
		"PAR 1", "T1 MPUT r1 sha256:@pa ct=ocim body=@pa", "T1 MDEL r1 sha256:@pa", "T1 MDEL r1 sha256:@pa", "SCHED"}
	out := ""
	for _, l := range lines {
		out, _ = c.apply(l)
	}
	fmt.Fprintln(impl, out)
	return 0
}

// ------------------------------------------------------------------ free-running stress

// runStress: real goroutines, no parking; the same statement monitors and the order search at quiescence.  Writes one
// line per round to VERIF_IMPL ("round <i> <case> lin=<n matching orders>") and the monitor lines.
func runStress(h *H, c *Conc, seed, n int) int {
	g := &cgen{c: c, r: rand.New(rand.NewSource(int64(seed))), store: os.Getenv("VERIF_STORE")}
	rounds := 0
	bad := 0
	for rounds < n {
		cs := g.randomCase(2 + g.r.Intn(2))
		for len(cs.lines())-len(cs.setup) > 4 {
			cs = g.randomCase(2 + g.r.Intn(2))
		}
		if g.r.Intn(3) == 0 {
			cs = g.curated()[g.r.Intn(len(g.curated()))]
		}
		if os.Getenv("VERIF_PROFILE") == "tagrace" {
			cs = g.tagRace()
		}
		if os.Getenv("VERIF_PROFILE") == "childrace" {
			cs = g.childRace()
		}
		c.st = concState{}
		h.lineNo = 0
		for _, l := range g.prelude(cs) {
			c.apply(l)
		}
		for _, l := range cs.setup {
			c.apply(l)
		}
		c.apply(fmt.Sprintf("PAR %d", len(cs.threads)))
		for i, th := range cs.threads {
			for _, l := range th {
				c.apply(fmt.Sprintf("T%d %s", i+1, l))
			}
		}
		for _, r := range c.st.all {
			h.prepare(r)
		}
		c.st.ran = true
		type res struct {
			r   *parReq
			rr  *httptest.ResponseRecorder
			ans string
		}
		var wg sync.WaitGroup
		var mu sync.Mutex
		var results []res
		start := make(chan struct{})
		for _, reqs := range c.st.threads {
			wg.Add(1)
			go func(reqs []*parReq) {
				defer wg.Done()
				<-start
				for _, r := range reqs {
					rr, ans := h.serve(r, 0, nil)
					mu.Lock()
					results = append(results, res{r, rr, ans})
					mu.Unlock()
				}
			}(reqs)
		}
		close(start)
		wg.Wait()
		for _, x := range results {
			if x.rr != nil {
				x.r.resp = h.canon(x.r, x.rr)
				x.r.ans = x.r.resp.line()
			} else {
				x.r.ans = x.ans
			}
			x.r.done = true
			// no real-time order is recorded in a free run: every request of another thread counts as overlapping
			x.r.invoke, x.r.complete = 0, 1<<30
			rs := h.mon.repo(x.r.repo)
			rs.dirty, rs.refDirty = true, true
		}
		c.st.schedStr = "free-running"
		for _, l := range g.observation(cs) {
			c.apply(l)
		}
		before := h.mon.count["C11.not-linearizable"]
		c.apply("LIN")
		if h.mon.count["C11.not-linearizable"] > before {
			bad++
			if bad <= 3 {
				fmt.Fprintf(os.Stderr, "STRESSCASE %s\n", strings.Join(cs.lines(), " ;; "))
			}
		}
		rounds++
	}
	st := map[string]int{"rounds": rounds, "not_linearizable": bad, "lin_sequential_runs": c.linRuns}
	for k, v := range h.mon.count {
		if strings.HasPrefix(k, "C11.") {
			st[k] = v
		}
	}
	b, _ := json.Marshal(st)
	fmt.Fprintln(os.Stderr, "CONCSTATS "+string(b))
	return 0
}
