//go:build sched

package main

// First-touch stress (C11, directory store, free running): a tripwire *below* the granularity of the model.  The first
// request for a repository makes the store build the repository object (dir.RepoGet: look at the directory, put the
// object into the repository cache); that is one store action for the forced schedules, so a check-then-act inside it
// is invisible to them.  Here n fresh repositories are each touched for the first time by k clients released together,
// every client pushing the same small image under its own tag (blob first); then the server is closed and reopened (the
// repository cache is empty although the directories exist) and k more clients per repository push further tags, their
// manifest PUT being the first touch.  Judged, at quiescence only and never on timing: every tag acknowledged with 201
// is in tags/list and resolves to the pushed manifest - now, and again after one more restart (monitor C11.lost-tag).
import (
	"encoding/json"
	"fmt"
	"net/http/httptest"
	"os"
	"sort"
	"strings"
	"sync"
)

func runFirstTouch(h *H, c *Conc, seed, n int) int {
	const k = 8
	if n <= 0 {
		n = 60
	}
	c.apply("NEW store=dir")
	c.apply("DEF @m1 image mt=ocim cfg=sha256:c1 cfgmt=cfg layers= subj= at= ann=n=m1")
	want := h.tk.realDigest("sha256:@m1")
	acked := map[string][]string{} // repository -> tags acknowledged with 201
	repos := []string{}
	for i := 1; i <= n; i++ {
		repos = append(repos, fmt.Sprintf("ft%d", i))
	}
	type job struct {
		tag  string
		reqs []*parReq
		rrs  []*httptest.ResponseRecorder
	}
	// one round: k clients per repository, released together; each runs its requests in a row
	round := func(prefix string, withBlob bool) int {
		pushed := 0
		for _, repo := range repos {
			jobs := []*job{}
			for j := 1; j <= k; j++ {
				jb := &job{tag: fmt.Sprintf("%s%d", prefix, j)}
				lines := []string{}
				if withBlob {
					lines = append(lines, "UPOST "+repo+" digest=sha256:c1 body=c1")
				}
				lines = append(lines, fmt.Sprintf("MPUT %s %s ct=ocim body=@m1", repo, jb.tag))
				for _, l := range lines {
					r := &parReq{line: l}
					h.prepare(r)
					jb.reqs = append(jb.reqs, r)
				}
				jobs = append(jobs, jb)
			}
			var wg sync.WaitGroup
			start := make(chan struct{})
			for _, jb := range jobs {
				wg.Add(1)
				go func(jb *job) {
					defer wg.Done()
					<-start
					for _, r := range jb.reqs {
						rr, _ := h.serve(r, 0, nil)
						jb.rrs = append(jb.rrs, rr)
					}
				}(jb)
			}
			close(start)
			wg.Wait()
			for _, jb := range jobs {
				last := jb.rrs[len(jb.rrs)-1]
				if last != nil && last.Code == 201 {
					acked[repo] = append(acked[repo], jb.tag)
					pushed++
				}
			}
		}
		return pushed
	}
	lostRepos := map[string]bool{}
	check := func(when string) {
		acc := map[string][]string{"Accept": {mtReal["ocim"], mtReal["ocii"], mtReal["dockm"], mtReal["dockl"]}}
		for _, repo := range repos {
			tl := h.do("GET", "/v2/"+repo+"/tags/list", reqOpt{mode: "tags"})
			listed := map[string]bool{}
			for _, t := range strings.Split(strings.Trim(tl.Body, "[]"), ",") {
				listed[t] = true
			}
			missing := []string{}
			for _, t := range acked[repo] {
				g := h.do("GET", "/v2/"+repo+"/manifests/"+t, reqOpt{mode: "get", hdr: acc})
				if !listed[t] || g.Status != 200 || g.header.Get("Docker-Content-Digest") != want {
					missing = append(missing, fmt.Sprintf("%s(listed=%v,GET=%d)", t, listed[t], g.Status))
				}
			}
			if len(missing) > 0 {
				sort.Strings(missing)
				lostRepos[repo] = true
				h.mon.flag(h, "C11.lost-tag", fmt.Sprintf("first-touch stress (free running), %s: repository %s: %d of %d tags acknowledged with 201 are missing: %s; tags/list = %s",
					when, repo, len(missing), len(acked[repo]), strings.Join(missing, " "), tl.Body))
			}
		}
	}
	p1 := round("t", true)
	check("fresh repositories on a freshly opened server, k clients each")
	h.restart(nil)
	p2 := round("u", false)
	check("after reopening the server (repository cache empty, directories exist) and k more first-touch pushes")
	h.restart(nil)
	check("after one more restart")
	st := map[string]int{"repositories": n, "clients_per_repository": k, "tags_acknowledged": p1 + p2, "repositories_with_lost_tags": len(lostRepos),
		"C11.lost-tag": h.mon.count["C11.lost-tag"]}
	b, _ := json.Marshal(st)
	fmt.Fprintln(os.Stderr, "CONCSTATS "+string(b))
	return 0
}
