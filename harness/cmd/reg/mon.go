package main

// Statement-level monitors on the implementation's own answers (DESIGN.md section 5.4).  They encode the
// properties as written; the shadow state below is the simplest bookkeeping that lets them be evaluated:
// what was acknowledged, what was deleted, which bytes each session received.
import (
	"bufio"
	"encoding/json"
	"fmt"
	"net/url"
	"os"
	"path/filepath"
	"regexp"
	"sort"
	"strconv"
	"strings"

	"github.com/opencontainers/go-digest"

	"github.com/olareg/olareg/types"
)

type manShadow struct {
	raw      []byte
	mts      map[string]bool // media types it was acknowledged under
	subject  string          // real digest string of the subject ("" none)
	refDesc  string          // canonical referrers descriptor (descList form)
	refSize  int             // marshalled size of a response that lists only this descriptor
	at       string          // artifact type used by the filter
	blobGone bool
	respLost bool // a collection ran while the subject was not a manifest of the repository: the response is dropped with its subject (F35)
	tagged   bool // acknowledged under a tag at least once since it was last absent (it then has an index entry of its own)
	noRoot   bool // a collection ran while the manifest had no index entry of its own and no top-level entry led to it (F33/F39)
}

type sessShadow struct {
	repo     string
	received []byte
	open     bool
	unknown  bool // state no longer known exactly (e.g. transport error)
}

type repoShadow struct {
	blobs    map[string][]byte     // real digest -> bytes: acknowledged, not deleted
	mans     map[string]*manShadow // real digest -> manifest: acknowledged, not deleted by digest
	tags     map[string]string     // tag -> real digest
	pushed   map[string]bool       // content (as string) ever pushed or mounted to this repository
	dirty    bool                  // a collection ran: retained set is judged by the GC properties, not here
	orphans  map[string]bool       // digests that were children of an index since deleted by digest
	deleted  map[string]bool       // blobs whose last acknowledged request was a delete through the blob API
	refDirty bool                  // referrers bookkeeping no longer exact (blob of an artifact deleted, switch toggled …)
	twinned  bool                  // a push of the bytes of a referrers response document was acknowledged here
	refEver  map[string]bool       // digest tokens of every manifest ever acknowledged here with a subject
}

type Monitors struct {
	w          *bufio.Writer
	count      map[string]int
	repos      map[string]*repoShadow
	sess       map[int]*sessShadow
	obs        bool
	noProbes   bool // the mode accounts for every operation of a line (crash, conc): no monitor sends requests of its own
	pre        map[string][]string
	fsBase     []string
	prevStore  string
	prevRef    string                     // the referrers switch before the last restart
	othersPre  map[string][]string        // read surface of the other repositories before a collection (C16)
	rootedPre  map[string]map[string]bool // repo -> digests that a top-level entry (other than a referrers response) leads to, before the collection
	gcBefore   *gcPre
	aged       map[string]bool // repo|digest whose age was set beyond the grace period
	diskShadow map[string]*repoShadow
	diskAged   map[string]bool // ages of the blobs in the directory under a memory overlay
	// every digest a history has touched in a repository (for the restart observation)
	everSeen map[string]map[string]bool
}

func (m *Monitors) note(repo, real string) {
	if m.everSeen == nil {
		m.everSeen = map[string]map[string]bool{}
	}
	if m.everSeen[repo] == nil {
		m.everSeen[repo] = map[string]bool{}
	}
	m.everSeen[repo][real] = true
}

func newMonitors(w *bufio.Writer) *Monitors {
	return &Monitors{w: w, count: map[string]int{}, repos: map[string]*repoShadow{}, sess: map[int]*sessShadow{}}
}

// twinCaused: monitors whose hits, in a repository where a client has pushed the very bytes of a referrers response
// document as a manifest of its own, carry the cause suffix of known finding F43 (index entries of the response and of
// the client's manifest are one and the same: deleting either, or a change of the list, takes the other along)
var twinCaused = map[string]bool{"C07.refs-exact": true, "C07.filter": true, "C07.paging": true, "C02.readback": true}

func (m *Monitors) flag(h *H, name, detail string) {
	if twinCaused[name] && h.curRepo != "" {
		if rs, ok := m.repos[h.curRepo]; ok && rs.twinned {
			name += ".twin-of-response"
		}
	}
	m.count[name]++
	if m.w != nil {
		fmt.Fprintf(m.w, "MON %d %s %s\n", h.lineNo, name, strings.ReplaceAll(detail, "\n", " "))
	}
}

func (m *Monitors) repo(r string) *repoShadow {
	rs, ok := m.repos[r]
	if !ok {
		rs = &repoShadow{blobs: map[string][]byte{}, mans: map[string]*manShadow{}, tags: map[string]string{}, pushed: map[string]bool{}}
		m.repos[r] = rs
	}
	return rs
}

func (m *Monitors) reset(h *H) {
	m.everSeen = nil
	m.aged = map[string]bool{}
	m.prevStore = kv(h.confToks, "store")
	m.prevRef = fmt.Sprint(*h.conf.API.Referrer.Enabled)
	m.diskShadow = map[string]*repoShadow{}
	m.repos = map[string]*repoShadow{}
	m.sess = map[int]*sessShadow{}
}

func copyShadow(in map[string]*repoShadow) map[string]*repoShadow {
	out := map[string]*repoShadow{}
	for k, rs := range in {
		c := &repoShadow{blobs: map[string][]byte{}, mans: map[string]*manShadow{}, tags: map[string]string{}, pushed: map[string]bool{}, dirty: rs.dirty, refDirty: rs.refDirty}
		for a, b := range rs.blobs {
			c.blobs[a] = b
		}
		for a, b := range rs.mans {
			ms := *b
			ms.mts = map[string]bool{}
			for x := range b.mts {
				ms.mts[x] = true
			}
			c.mans[a] = &ms
		}
		for a, b := range rs.tags {
			c.tags[a] = b
		}
		for a := range rs.pushed {
			c.pushed[a] = true
		}
		if rs.orphans != nil {
			c.orphans = map[string]bool{}
			for a := range rs.orphans {
				c.orphans[a] = true
			}
		}
		out[k] = c
	}
	return out
}

// restarted: sessions do not survive a restart; the memory store loses everything, a memory store over a
// directory falls back to what the directory holds
func (m *Monitors) restarted(h *H) {
	m.sess = map[int]*sessShadow{}
	if m.prevStore == "dir" {
		m.diskShadow = copyShadow(m.repos)
		m.diskAged = map[string]bool{}
		for k, v := range m.aged {
			m.diskAged[k] = v
		}
	}
	switch kv(h.confToks, "store") {
	case "dir":
	case "memdir":
		m.repos = copyShadow(m.diskShadow)
		// … and to the ages the files of the directory have (what the discarded overlay had uploaded again is gone)
		m.aged = map[string]bool{}
		for k, v := range m.diskAged {
			m.aged[k] = v
		}
	default:
		m.repos = map[string]*repoShadow{}
	}
	refNow := fmt.Sprint(*h.conf.API.Referrer.Enabled)
	for _, rs := range m.repos {
		if m.prevRef != refNow || m.prevStore != kv(h.confToks, "store") {
			rs.refDirty = true // pushes and deletes while the referrers API was off are not in the responses (C19, F24)
		}
	}
	m.prevRef = refNow
	m.prevStore = kv(h.confToks, "store")
}

var reRepo = regexp.MustCompile(`^[a-z0-9]+(?:(?:\.|_|__|-+)[a-z0-9]+)*(?:\/[a-z0-9]+(?:(?:\.|_|__|-+)[a-z0-9]+)*)*$`)

// routable: the repository name is of the OCI grammar and not one the directory store refuses
func (m *Monitors) routable(h *H, repo string) bool {
	if !reRepo.MatchString(repo) {
		return false
	}
	if kv(h.confToks, "store") == "dir" {
		for _, p := range strings.Split(repo, "/") {
			if p == "index.json" || p == "oci-layout" || p == "blobs" {
				return false
			}
		}
	}
	return true
}

var registeredCodes = map[string]bool{
	"BLOB_UNKNOWN": true, "BLOB_UPLOAD_INVALID": true, "BLOB_UPLOAD_UNKNOWN": true, "DIGEST_INVALID": true,
	"MANIFEST_BLOB_UNKNOWN": true, "MANIFEST_INVALID": true, "MANIFEST_UNKNOWN": true, "NAME_INVALID": true,
	"NAME_UNKNOWN": true, "SIZE_INVALID": true, "UNAUTHORIZED": true, "DENIED": true, "UNSUPPORTED": true,
	"TOOMANYREQUESTS": true,
}

// every answer: no panic, no 5xx while storage is healthy, error bodies are OCI error documents (C15)
func (m *Monitors) common(h *H, what string, r Resp) {
	if r.Status == 999 {
		m.flag(h, "C15.panic", what)
		return
	}
	if r.Status >= 500 {
		m.flag(h, "C15.5xx", fmt.Sprintf("%s answered %d", what, r.Status))
	}
	if r.Status >= 400 && len(r.raw) > 0 && r.Status != 416 {
		var e struct {
			Errors []struct {
				Code    string `json:"code"`
				Message string `json:"message"`
			} `json:"errors"`
		}
		if err := json.Unmarshal(r.raw, &e); err != nil || len(e.Errors) == 0 {
			m.flag(h, "C15.error-doc", fmt.Sprintf("%s: status %d body is not an OCI error document", what, r.Status))
		} else {
			for _, x := range e.Errors {
				if !registeredCodes[x.Code] {
					m.flag(h, "C15.error-code", fmt.Sprintf("%s: code %q is not a registered code", what, x.Code))
				}
			}
		}
	}
	if r.Status < 400 && r.Status != 206 && r.Status != 200 && len(r.raw) > 0 {
		// bodies only on 200/206 and errors
		m.flag(h, "C15.error-doc", fmt.Sprintf("%s: status %d carries a body", what, r.Status))
	}
}

func validDigestTok(tok string) bool {
	return tok != "" && !strings.HasPrefix(tok, "bad:")
}

// holds reports whether the repository is known to hold a blob under this real digest
func (rs *repoShadow) holds(d string) bool {
	if _, ok := rs.blobs[d]; ok {
		return true
	}
	if ms, ok := rs.mans[d]; ok && !ms.blobGone {
		return true
	}
	return false
}

func (m *Monitors) ackBlob(h *H, repo, real string, b []byte) {
	m.note(repo, real)
	delete(m.aged, repo+"|"+real) // a new upload is recent
	rs := m.repo(repo)
	rs.blobs[real] = append([]byte{}, b...)
	rs.pushed[string(b)] = true
	delete(rs.deleted, real)
}

func (m *Monitors) uPost(h *H, a []string, r Resp) {
	m.common(h, "UPOST", r)
	repo := a[0]
	rs := m.repo(repo)
	body := h.tk.content(kv(a, "body"))
	dTok := kv(a, "digest")
	mTok, from := kv(a, "mount"), kv(a, "from")
	// session created?
	if r.Status == 202 && strings.HasPrefix(r.Loc, "session:") {
		n, _ := strconv.Atoi(strings.TrimPrefix(strings.SplitN(strings.SplitN(r.Loc, ":s", 2)[1], "?", 2)[0], ""))
		m.sess[n] = &sessShadow{repo: repo, open: true}
		return
	}
	if r.Status != 201 {
		return
	}
	// acknowledged: monolithic upload, mount, or "already exists"
	tok := dTok
	if tok == "" {
		tok = mTok
	}
	if !validDigestTok(tok) {
		m.flag(h, "C01.wrong-digest-accepted", "201 for a digest that does not parse: "+tok)
		return
	}
	real := h.tk.realDigest(tok)
	d := digest.Digest(real)
	if rs.holds(real) {
		// short-cut: the repository holds it already, the body is not read; the acknowledged upload is recent all the same (C05)
		delete(m.aged, repo+"|"+real)
		return
	}
	if mTok != "" && from != "" && dTok == "" {
		// mount: succeeds only if the source repository holds the blob
		src := m.repo(from)
		if b, ok := src.blobs[real]; ok {
			m.ackBlob(h, repo, real, b)
			return
		}
		if ms, ok := src.mans[real]; ok && !ms.blobGone {
			m.ackBlob(h, repo, real, ms.raw)
			return
		}
		if !src.dirty && !rs.dirty {
			m.flag(h, "C16.mount-without-source", fmt.Sprintf("mount of %s from %s acknowledged although the source does not hold it", tok, from))
		}
		return
	}
	if dTok != "" {
		if d.Algorithm().FromBytes(body).String() != real {
			if mTok != "" && from != "" {
				// mount attempted first and may have succeeded from the source
				src := m.repo(from)
				if b, ok := src.blobs[h.tk.realDigest(mTok)]; ok {
					m.ackBlob(h, repo, h.tk.realDigest(mTok), b)
					return
				}
			}
			if !rs.dirty {
				m.flag(h, "C01.wrong-digest-accepted", fmt.Sprintf("monolithic upload acknowledged: declared %s, body %q", tok, h.tk.contentName(body)))
			}
			return
		}
		m.ackBlob(h, repo, real, body)
	}
}

// evictable: with a session bound (or an expiry age) the store may drop a session at any time
func (m *Monitors) evictable(h *H) bool {
	return confInt(h.confToks, "upmax") > 0 || (kv(h.confToks, "grace") != "" && kv(h.confToks, "grace") != "-1")
}

// evicted: an open session answered BLOB_UPLOAD_UNKNOWN while eviction is possible
func (m *Monitors) evicted(h *H, ss *sessShadow, r Resp) bool {
	if ss != nil && ss.open && m.evictable(h) && r.Status == 400 && r.Code == "BLOB_UPLOAD_UNKNOWN" {
		ss.open = false
		return true
	}
	return false
}

func sessNum(sid string) int {
	n, _ := strconv.Atoi(strings.TrimPrefix(sid, "s"))
	return n
}

func crStart(cr string) (int, bool) {
	i := strings.Index(cr, "-")
	if i < 1 {
		return 0, false
	}
	n, err := strconv.Atoi(cr[:i])
	return n, err == nil
}

func (m *Monitors) uWrite(h *H, op string, a []string, r Resp) {
	m.common(h, op, r)
	repo, n := a[0], sessNum(a[1])
	ss := m.sess[n]
	body := h.tk.content(kv(a, "body"))
	accepted := (op == "UPATCH" && r.Status == 202) || (op == "UPUT" && r.Status == 201)
	if ss != nil && ss.repo == repo && m.evicted(h, ss, r) {
		return
	}
	if ss == nil || !ss.open || ss.repo != repo {
		// unknown, ended or foreign session: every use is refused
		if r.Status < 400 || r.Status >= 500 {
			what := "C08.gone-after"
			if ss != nil && ss.open && ss.repo != repo {
				what = "C08.cross-repo"
			}
			if r.Status != 999 && r.Status < 500 {
				m.flag(h, what, fmt.Sprintf("%s on session %s of %s answered %d", op, a[1], repo, r.Status))
			}
		}
		return
	}
	if ss.unknown {
		if r.Status >= 500 || (op == "UPUT" && r.Status < 500 && r.Status != 416 && r.Code != "BLOB_UPLOAD_INVALID" && r.Code != "DIGEST_INVALID") {
			ss.open = false
		}
		return
	}
	cur := len(ss.received)
	inOrder := true
	if cr := kv(a, "cr"); cr != "" {
		if s, ok := crStart(cr); !ok || s != cur {
			inOrder = false
		}
	}
	if st := kv(a, "state"); st != strconv.Itoa(cur) {
		inOrder = false
	}
	if accepted && !inOrder {
		m.flag(h, "C08.chunk-order", fmt.Sprintf("%s accepted with cr=%q state=%q while %d bytes were received", op, kv(a, "cr"), kv(a, "state"), cur))
	}
	if op == "UPATCH" {
		if r.Status == 202 {
			ss.received = append(ss.received, body...)
			if want := fmt.Sprintf("0-%d", len(ss.received)-1); r.Range != want {
				m.flag(h, "C08.status-query", fmt.Sprintf("PATCH reports range %s, %d bytes received", r.Range, len(ss.received)))
			}
		} else if r.Status >= 500 {
			ss.unknown = true
		}
		return
	}
	// UPUT
	dTok := kv(a, "digest")
	switch {
	case r.Status == 201:
		full := append(append([]byte{}, ss.received...), body...)
		ss.open = false
		if !validDigestTok(dTok) {
			m.flag(h, "C01.wrong-digest-accepted", "PUT acknowledged for unparsable digest "+dTok)
			return
		}
		real := h.tk.realDigest(dTok)
		if digest.Digest(real).Algorithm().FromBytes(full).String() != real {
			m.flag(h, "C01.wrong-digest-accepted", fmt.Sprintf("PUT acknowledged: declared %s, received %q", dTok, h.tk.contentName(full)))
			return
		}
		m.ackBlob(h, repo, real, full)
		// the stored blob is the concatenation of the accepted chunks
		g := h.do("GET", "/v2/"+repo+"/blobs/"+real, reqOpt{mode: "get"})
		if g.Status != 200 || string(g.raw) != string(full) {
			m.flag(h, "C08.final-concat", fmt.Sprintf("blob %s read back %d %q, expected %q", dTok, g.Status, h.tk.contentName(g.raw), h.tk.contentName(full)))
		}
	case r.Status >= 500:
		ss.unknown = true
		ss.received = append(ss.received, body...)
	case r.Status == 400 && r.Code == "BLOB_UPLOAD_INVALID" && inOrder && validDigestTok(dTok):
		// failed verification ends the session
		ss.open = false
		m.checkNoPartial(h, repo, append(append([]byte{}, ss.received...), body...))
	}
}

func (m *Monitors) checkNoPartial(h *H, repo string, content []byte) {
	rs := m.repo(repo)
	for _, a := range algs {
		d := a.FromBytes(content).String()
		if rs.holds(d) || rs.dirty {
			continue
		}
		g := h.do("HEAD", "/v2/"+repo+"/blobs/"+d, reqOpt{mode: "head"})
		if g.Status == 200 {
			m.flag(h, "C08.partial-blob", fmt.Sprintf("content of an ended session became blob %s", h.tk.tokDigest(d)))
		}
	}
}

func (m *Monitors) uGet(h *H, a []string, r Resp) {
	m.common(h, "UGET", r)
	repo, n := a[0], sessNum(a[1])
	ss := m.sess[n]
	if ss != nil && ss.repo == repo && m.evicted(h, ss, r) {
		return
	}
	if ss == nil || !ss.open || ss.repo != repo {
		if r.Status < 400 {
			m.flag(h, "C08.gone-after", fmt.Sprintf("status query on session %s of %s answered %d", a[1], repo, r.Status))
		}
		return
	}
	if ss.unknown {
		return
	}
	if r.Status != 204 {
		m.flag(h, "C08.status-query", fmt.Sprintf("status query on an open session answered %d", r.Status))
		return
	}
	want := fmt.Sprintf("0-%d", len(ss.received)-1)
	if r.Range != want || !strings.HasSuffix(r.Loc, "?state="+strconv.Itoa(len(ss.received))) {
		m.flag(h, "C08.status-query", fmt.Sprintf("status query reports range %s loc %s, %d bytes received", r.Range, r.Loc, len(ss.received)))
	}
}

func (m *Monitors) uDel(h *H, a []string, r Resp) {
	m.common(h, "UDEL", r)
	repo, n := a[0], sessNum(a[1])
	ss := m.sess[n]
	if ss != nil && ss.repo == repo && m.evicted(h, ss, r) {
		return
	}
	if ss == nil || !ss.open || ss.repo != repo {
		if r.Status < 400 {
			what := "C08.gone-after"
			if ss != nil && ss.open {
				what = "C08.cross-repo"
			}
			m.flag(h, what, fmt.Sprintf("cancel of session %s on %s answered %d", a[1], repo, r.Status))
		}
		return
	}
	if r.Status == 202 {
		ss.open = false
		if !ss.unknown {
			m.checkNoPartial(h, repo, ss.received)
		}
	}
	m.checkTemp(h, repo)
}

// no temporary file remains once no session of the repository is open (directory store)
func (m *Monitors) checkTemp(h *H, repo string) {
	if kv(h.confToks, "store") != "dir" {
		return
	}
	open := 0
	for _, s := range m.sess {
		if s.repo == repo && (s.open || s.unknown) {
			open++
		}
	}
	es, err := os.ReadDir(filepath.Join(h.root, repo, "_uploads"))
	if err != nil {
		return
	}
	if len(es) > open {
		m.flag(h, "C08.temp-left", fmt.Sprintf("%d files under _uploads, %d sessions open", len(es), open))
	}
}

func (m *Monitors) prune(h *H, a []string) {
	repo := a[0]
	// after the prune the number of open sessions is within the bound (when cleanups succeed)
	max := confInt(h.confToks, "upmax")
	cnt := h.srv.VerifUploadCount(repo)
	if len(a) > 1 && a[1] == "count" && max > 0 && cnt > max {
		m.flag(h, "C08.bound", fmt.Sprintf("%d sessions open after the count prune, bound %d", cnt, max))
	}
	// which sessions are gone is decided by the cache (C20); probe each so the shadow stays exact
	for n, ss := range m.sess {
		if ss.repo != repo || !ss.open {
			continue
		}
		g := h.do("GET", "/v2/"+repo+"/blobs/uploads/"+h.sessID[n], reqOpt{})
		if g.Status >= 400 {
			ss.open = false
		}
	}
	m.checkTemp(h, repo)
}

func rangeOK(h *H, spec string, full []byte, r Resp) string {
	// http.ServeContent semantics for a single range: a-b, a-, -n
	size := len(full)
	if size == 0 {
		// net/http answers 200 for an empty file whatever the range
		return ""
	}
	var lo, hi int
	p := strings.SplitN(spec, "-", 2)
	if len(p) != 2 {
		return ""
	}
	switch {
	case p[0] == "":
		n, err := strconv.Atoi(p[1])
		if err != nil {
			return ""
		}
		if n > size {
			n = size
		}
		lo, hi = size-n, size-1
		if n == 0 {
			return ""
		}
	default:
		a, err := strconv.Atoi(p[0])
		if err != nil {
			return ""
		}
		lo = a
		hi = size - 1
		if p[1] != "" {
			b, err := strconv.Atoi(p[1])
			if err != nil || b < a {
				return ""
			}
			if b < hi {
				hi = b
			}
		}
		if lo >= size {
			if r.Status != 416 {
				return fmt.Sprintf("range %s beyond %d bytes answered %d", spec, size, r.Status)
			}
			return ""
		}
	}
	if r.Status != 206 {
		return fmt.Sprintf("range %s answered %d", spec, r.Status)
	}
	if string(r.raw) != string(full[lo:hi+1]) && r.Body != "-" {
		return fmt.Sprintf("range %s returned %q, expected %q", spec, r.raw, full[lo:hi+1])
	}
	if want := fmt.Sprintf("bytes%d-%d/%d", lo, hi, size); r.CRange != want {
		return fmt.Sprintf("range %s Content-Range %s, expected %s", spec, r.CRange, want)
	}
	return ""
}

// readback: an acknowledged item is served with exactly the pushed bytes (C02), hashing to its digest (C01),
// and only in repositories it was pushed to (C16)
func (m *Monitors) served(h *H, what, repo, real string, want []byte, known bool, head bool, rng string, r Resp) {
	rs := m.repo(repo)
	// a blob deleted through the blob API (202) and not pushed again is gone, on every store (C10: the stores answer alike;
	// a memory store over a directory must not let the copy underneath show through)
	if (r.Status == 200 || r.Status == 206) && rs.deleted[real] && !rs.dirty && strings.HasPrefix(what, "B") {
		m.flag(h, "C10.deleted-served", fmt.Sprintf("%s: answered %d although the blob was deleted (202) and not pushed again", what, r.Status))
	}
	if r.Status == 200 && !head {
		if hd := r.header.Get("Docker-Content-Digest"); hd != "" {
			d := digest.Digest(hd)
			if d.Validate() != nil || d.Algorithm().FromBytes(r.raw).String() != hd {
				m.flag(h, "C01.served-hash", fmt.Sprintf("%s: body %q does not hash to %s", what, h.tk.contentName(r.raw), h.tk.tokDigest(hd)))
			}
		} else {
			m.flag(h, "C01.served-hash", what+": 200 without Docker-Content-Digest")
		}
		if !rs.pushed[string(r.raw)] && !strings.HasPrefix(h.tk.contentName(r.raw), "R(") && !rs.dirty {
			m.flag(h, "C16.cross-serve", fmt.Sprintf("%s: %s serves content %q that was never pushed to it", what, repo, h.tk.contentName(r.raw)))
		}
	}
	if !known || rs.dirty {
		return
	}
	if rng != "" && r.Status != 404 {
		if msg := rangeOK(h, rng, want, r); msg != "" {
			m.flag(h, "C02.range", what+": "+msg)
		}
		return
	}
	// a not-found answer is judged as a read-back, with its cause labels, whether or not a range was asked for
	if r.Status != 200 {
		if ms, ok := rs.mans[real]; ok && ms.respLost && r.Status == 404 {
			// a referrer whose subject was not a manifest of the repository at a collection: the configured policy
			// (ReferrersWithSubj / ReferrersDangling) removes the response and what only it refers to - "removed by the
			// configured garbage-collection policy", not judged here
			return
		}
		name := "C02.readback"
		if ms, ok := rs.mans[real]; ok && ms.noRoot && !rs.orphans[real] && r.Status == 404 {
			name += ".child-record-without-root"
		} else if rs.orphans[real] {
			// cause: the manifest had become a child record of an index (no top-level entry of its own) and that index was
			// deleted by digest; child records live in memory only (F31/F32/F33)
			name += ".child-of-deleted-index"
		}
		m.flag(h, name, fmt.Sprintf("%s: acknowledged item answered %d %s", what, r.Status, r.Code))
		return
	}
	if !head && string(r.raw) != string(want) {
		m.flag(h, "C02.readback", fmt.Sprintf("%s: returned %q, pushed %q", what, h.tk.contentName(r.raw), h.tk.contentName(want)))
	}
	if r.Cl != strconv.Itoa(len(want)) {
		m.flag(h, "C02.readback", fmt.Sprintf("%s: Content-Length %s, pushed %d bytes", what, r.Cl, len(want)))
	}
	if hd := r.header.Get("Docker-Content-Digest"); hd != real {
		m.flag(h, "C02.readback", fmt.Sprintf("%s: Docker-Content-Digest %s, expected %s", what, h.tk.tokDigest(hd), h.tk.tokDigest(real)))
	}
}

func (m *Monitors) bGet(h *H, op string, a []string, r Resp) {
	m.common(h, op, r)
	repo, tok := a[0], a[1]
	if !m.routable(h, repo) {
		return
	}
	if !validDigestTok(tok) {
		if r.Status != 400 || r.Code != "DIGEST_INVALID" {
			m.flag(h, "C15.code-for-condition", fmt.Sprintf("%s with unparsable digest answered %d %s", op, r.Status, r.Code))
		}
		return
	}
	real := h.tk.realDigest(tok)
	rs := m.repo(repo)
	want, known := rs.blobs[real]
	if !known {
		if ms, ok := rs.mans[real]; ok && !ms.blobGone {
			want, known = ms.raw, true
		}
	}
	m.served(h, op+" "+tok, repo, real, want, known, op == "BHEAD", kv(a[2:], "range"), r)
	if r.Status == 404 && r.Code != "BLOB_UNKNOWN" {
		m.flag(h, "C15.code-for-condition", fmt.Sprintf("%s of an unknown blob answered code %q", op, r.Code))
	}
}

func (m *Monitors) bDel(h *H, a []string, r Resp) {
	m.common(h, "BDEL", r)
	repo, tok := a[0], a[1]
	if !validDigestTok(tok) {
		return
	}
	real := h.tk.realDigest(tok)
	rs := m.repo(repo)
	if r.Status == 202 {
		if rs.deleted == nil {
			rs.deleted = map[string]bool{}
		}
		rs.deleted[real] = true
		delete(m.aged, repo+"|"+real)
		delete(rs.blobs, real)
		if ms, ok := rs.mans[real]; ok {
			ms.blobGone = true
			rs.refDirty = true
		}
		// a manifest that references it is no longer complete; referrers responses stored as blobs may be hit too
		if strings.HasPrefix(strings.SplitN(tok, ":", 2)[1], "R(") {
			rs.refDirty = true
		}
	}
}

type bodyInfo struct {
	kind    string
	mtField string
	refs    []string // digest tokens of config, layers, children
	subj    string
	at      string
	cfgMt   string
	ann     string
}

func (h *H) bodyInfo(name string) bodyInfo {
	line, ok := h.tk.defOf[name]
	if !ok {
		return bodyInfo{kind: "blob"}
	}
	t := strings.Fields(line)
	bi := bodyInfo{kind: t[2], mtField: kv(t, "mt"), subj: kv(t, "subj"), at: kv(t, "at"), cfgMt: kv(t, "cfgmt"), ann: kv(t, "ann")}
	switch bi.kind {
	case "image":
		bi.refs = append(bi.refs, kv(t, "cfg"))
		bi.refs = append(bi.refs, csv(kv(t, "layers"))...)
	case "index":
		for _, c := range strings.Split(kv(t, "children"), ";") {
			p := strings.SplitN(c, "/", 3)
			if len(p) == 3 {
				bi.refs = append(bi.refs, p[1])
			}
		}
	}
	return bi
}

// detectMT: the media type a document without Content-Type is to be read as: its mediaType field; else an index if it
// lists manifests (Docker list if the first child is of a Docker type); else an image manifest by its config's type
func detectMT(raw []byte) string {
	var d struct {
		MediaType string             `json:"mediaType"`
		Config    types.Descriptor   `json:"config"`
		Manifests []types.Descriptor `json:"manifests"`
	}
	if json.Unmarshal(raw, &d) != nil {
		return ""
	}
	switch {
	case d.MediaType != "":
		return mtToken(d.MediaType)
	case len(d.Manifests) > 0:
		if strings.HasPrefix(d.Manifests[0].MediaType, "application/vnd.docker.") {
			return "dockl"
		}
		return "ocii"
	case d.Config.MediaType == "":
		return ""
	case strings.HasPrefix(d.Config.MediaType, "application/vnd.docker."):
		return "dockm"
	}
	return "ocim"
}

func isImageMT(t string) bool { return t == "ocim" || t == "dockm" }
func isIndexMT(t string) bool { return t == "ocii" || t == "dockl" }

// refusedUnchanged (C04, second half): a refused push leaves the observable state of the repository as it was - the tag
// still resolves to what it resolved to, the refused body is not served as a manifest or as a blob, and it is not listed
// as a referrer - unless the same bytes had been acknowledged before
func (m *Monitors) refusedUnchanged(h *H, repo, ref string, body []byte, r Resp) {
	rs := m.repo(repo)
	if m.noProbes || r.Status < 400 || r.Status >= 500 || rs.dirty || !m.routable(h, repo) || len(body) == 0 {
		return
	}
	if strings.HasPrefix(h.tk.contentName(body), "R(") {
		return // the bytes of a referrers response document: the registry may hold them on its own account
	}
	acc := map[string][]string{"Accept": {mtReal["ocim"], mtReal["ocii"], mtReal["dockm"], mtReal["dockl"]}}
	if types.RefTagRE.MatchString(ref) {
		g := h.do("HEAD", "/v2/"+repo+"/manifests/"+ref, reqOpt{mode: "head", hdr: acc})
		was, had := rs.tags[ref]
		got := g.header.Get("Docker-Content-Digest")
		if (had && g.Status == 200 && got != was) || (!had && g.Status == 200) {
			m.flag(h, "C04.refused-changed", fmt.Sprintf("push to tag %s refused with %d, but the tag now resolves to %s (before: %q)", ref, r.Status, h.tk.tokDigest(got), h.tk.tokDigest(was)))
		}
	}
	for _, alg := range algs {
		d := alg.FromBytes(body).String()
		if rs.holds(d) {
			continue
		}
		if _, ok := rs.mans[d]; ok {
			continue
		}
		if g := h.do("HEAD", "/v2/"+repo+"/manifests/"+d, reqOpt{mode: "head", hdr: acc}); g.Status == 200 {
			m.flag(h, "C04.refused-changed", fmt.Sprintf("push refused with %d, but the body is served as manifest %s", r.Status, h.tk.tokDigest(d)))
		}
		if g := h.do("HEAD", "/v2/"+repo+"/blobs/"+d, reqOpt{mode: "head"}); g.Status == 200 {
			m.flag(h, "C04.refused-changed", fmt.Sprintf("push refused with %d, but the body is stored as blob %s", r.Status, h.tk.tokDigest(d)))
		}
	}
}

func (m *Monitors) mPut(h *H, a []string, r Resp) {
	m.common(h, "MPUT", r)
	// with the referrers API disabled a push has no referrers effect: no OCI-Subject header (C19: each switch has its effect and no other)
	if !*h.conf.API.Referrer.Enabled && r.Subj != "" {
		m.flag(h, "C19.referrers-off-effect", fmt.Sprintf("push answered with OCI-Subject %s although the referrers API is disabled", r.Subj))
	}
	repo, ref := a[0], a[1]
	rs := m.repo(repo)
	name := kv(a, "body")
	body := h.tk.content(name)
	limit := h.conf.API.Manifest.Limit
	if limit <= 0 {
		limit = 8 * 1024 * 1024
	}
	if r.Status != 201 {
		m.refusedUnchanged(h, repo, ref, body, r)
		return
	}
	// acknowledged
	if int64(len(body)) > limit {
		m.flag(h, "C02.limit", fmt.Sprintf("manifest of %d bytes acknowledged, limit %d", len(body), limit))
	}
	bi := h.bodyInfo(name)
	if strings.HasPrefix(name, "R(") {
		m.repo(repo).twinned = true
	}
	ct := kv(a, "ct")
	alg := digest.SHA256
	isTag := types.RefTagRE.MatchString(ref)
	if !isTag {
		if !validDigestTok(ref) {
			m.flag(h, "C04.accepted-invalid", "reference is neither a tag nor a digest: "+ref)
			return
		}
		alg = digest.Digest(h.tk.realDigest(ref)).Algorithm()
		if alg.FromBytes(body).String() != h.tk.realDigest(ref) {
			m.flag(h, "C01.wrong-digest-accepted", fmt.Sprintf("manifest acknowledged under %s, body %s", ref, name))
			return
		}
	}
	if qd := kv(a, "qd"); qd != "" && isTag {
		if !validDigestTok(qd) || digest.Digest(h.tk.realDigest(qd)).Algorithm().FromBytes(body).String() != h.tk.realDigest(qd) {
			m.flag(h, "C01.wrong-digest-accepted", fmt.Sprintf("manifest acknowledged with ?digest=%s, body %s", qd, name))
			return
		}
		alg = digest.Digest(h.tk.realDigest(qd)).Algorithm()
	}
	real := alg.FromBytes(body).String()
	if hd := r.header.Get("Docker-Content-Digest"); hd != real {
		m.flag(h, "C02.readback", fmt.Sprintf("manifest push reports digest %s, body hashes to %s", h.tk.tokDigest(hd), h.tk.tokDigest(real)))
	}
	// effective media type
	mt := ct
	if mt == "" {
		mt = detectMT(body) // the harness's own reading of the document, not the function under test
	}
	switch bi.kind {
	case "junk", "blob":
		m.flag(h, "C04.accepted-invalid", "body does not parse: "+name)
		return
	case "image":
		// judged: the body's own mediaType field contradicts the type it was acknowledged under; a body without
		// the field, or one whose field itself names the other kind, is not judged (the registry believes the document)
		if !(isImageMT(mt) || isIndexMT(mt)) || (bi.mtField != "" && bi.mtField != mt) {
			m.flag(h, "C04.accepted-invalid", fmt.Sprintf("image manifest %s (mediaType %q) acknowledged as %s", name, bi.mtField, mt))
		}
	case "index":
		if !(isImageMT(mt) || isIndexMT(mt)) || (bi.mtField != "" && bi.mtField != mt) {
			m.flag(h, "C04.accepted-invalid", fmt.Sprintf("index %s (mediaType %q) acknowledged as %s", name, bi.mtField, mt))
		}
	}
	if !rs.dirty {
		for _, ref := range bi.refs {
			if (bi.kind == "image" && isImageMT(mt)) || (bi.kind == "index" && isIndexMT(mt)) {
				if !validDigestTok(ref) || !rs.holds(h.tk.realDigest(ref)) {
					m.flag(h, "C04.accepted-invalid", fmt.Sprintf("manifest %s acknowledged although %s is not in %s", name, ref, repo))
				}
			}
		}
	}
	ms, ok := rs.mans[real]
	if !ok {
		ms = &manShadow{raw: append([]byte{}, body...), mts: map[string]bool{}}
		rs.mans[real] = ms
	}
	ms.blobGone = false
	if isTag {
		ms.tagged = true
	}
	delete(rs.deleted, real)
	delete(m.aged, repo+"|"+real) // a pushed manifest is recent, also when its bytes were there already (C05)
	ms.respLost = false           // a push registers the manifest with its subject again
	ms.noRoot = false
	m.note(repo, real)
	ms.mts[mt] = true
	rs.pushed[string(body)] = true
	if isTag {
		if was, ok := rs.tags[ref]; ok && was != real {
			// the tag moves away: for a twin of a response that is the removal of its last tag (see mDel)
			if pm, ok := rs.mans[was]; ok && strings.HasPrefix(h.tk.contentName(pm.raw), "R(") {
				pm.tagged = false
				for t, d := range rs.tags {
					if d == was && t != ref {
						pm.tagged = true
					}
				}
			}
		}
		rs.tags[ref] = real
	}
	// referrers bookkeeping
	if bi.subj != "" && validDigestTok(bi.subj) && *h.conf.API.Referrer.Enabled && (bi.kind == "image" || bi.kind == "index") {
		ms.subject = h.tk.realDigest(bi.subj)
		at := bi.at
		if at == "" && bi.kind == "image" && isImageMT(mt) {
			at = bi.cfgMt
		}
		ms.at = at
		ms.refDesc = fmt.Sprintf("%s/%s/%d/%s/%s", h.tk.tokDigest(real), mt, len(body), at, bi.ann)
		if rs.refEver == nil {
			rs.refEver = map[string]bool{}
		}
		rs.refEver[h.tk.tokDigest(real)] = true
		one, _ := json.Marshal(types.Index{SchemaVersion: 2, MediaType: types.MediaTypeOCI1ManifestList, Manifests: []types.Descriptor{{
			MediaType: mtRealOf(mt), Digest: digest.Digest(real), Size: int64(len(body)), ArtifactType: mtRealOf(at), Annotations: parseAnn(bi.ann)}}})
		ms.refSize = len(one)
		if want := h.tk.tokDigest(ms.subject); r.Subj != want {
			m.flag(h, "C07.oci-subject", fmt.Sprintf("push of an artifact reports OCI-Subject %q, expected %s", r.Subj, want))
		}
	}
	if len(ms.mts) > 1 {
		rs.refDirty = true // same bytes under two media types: which one is listed is not judged
	}
}

func (m *Monitors) resolve(h *H, repo, ref string) (string, *manShadow, bool) {
	rs := m.repo(repo)
	if types.RefTagRE.MatchString(ref) {
		real, ok := rs.tags[ref]
		if !ok {
			return "", nil, false
		}
		return real, rs.mans[real], rs.mans[real] != nil
	}
	if !validDigestTok(ref) {
		return "", nil, false
	}
	real := h.tk.realDigest(ref)
	ms, ok := rs.mans[real]
	return real, ms, ok
}

func (m *Monitors) mGet(h *H, op string, a []string, r Resp) {
	m.common(h, op, r)
	repo, ref := a[0], a[1]
	rs := m.repo(repo)
	real, ms, known := m.resolve(h, repo, ref)
	acc := csv(kv(a, "accept"))
	head := op == "MHEAD"
	isTag := types.RefTagRE.MatchString(ref)
	if r.Status == 200 && !head {
		// whatever is served hashes to the digest it is served under
		m.served(h, op+" "+ref, repo, "", nil, false, head, "", r)
	}
	if isTag && !known && r.Status == 200 && !rs.dirty {
		m.flag(h, "C03.tag-resolve", fmt.Sprintf("tag %s resolves (to %s) although it was never pushed or was deleted", ref, r.Dcd))
	}
	if !known || ms.blobGone || rs.dirty {
		return
	}
	// the Accept list must contain the stored type for the read-back claim
	accepts := false
	for _, x := range acc {
		if ms.mts[x] {
			accepts = true
		}
	}
	if !accepts || len(ms.mts) != 1 {
		return
	}
	m.served(h, op+" "+ref, repo, real, ms.raw, true, head, kv(a, "range"), r)
	if r.Status == 200 {
		for mt := range ms.mts {
			if r.Ct != mt {
				m.flag(h, "C02.readback", fmt.Sprintf("%s %s: Content-Type %s, pushed as %s", op, ref, r.Ct, mt))
			}
		}
	}
}

func (m *Monitors) mDel(h *H, a []string, r Resp) {
	m.common(h, "MDEL", r)
	repo, ref := a[0], a[1]
	rs := m.repo(repo)
	// C03: deleting by digest removes the manifest: an acknowledged manifest that was neither deleted nor collected is not "unknown"
	if r.Status == 404 && !types.RefTagRE.MatchString(ref) && validDigestTok(ref) && !rs.dirty && m.routable(h, repo) {
		if ms, ok := rs.mans[h.tk.realDigest(ref)]; ok && !ms.noRoot {
			name := "C03.delete-refused"
			if strings.HasPrefix(h.tk.contentName(ms.raw), "R(") && !ms.tagged {
				// the twin of a response pushed by digest only: it was acknowledged on the strength of the registry's own entry, which is
				// not deleted as a manifest and which a change of the list replaces (F43)
				name += ".twin-without-entry"
			}
			m.flag(h, name, fmt.Sprintf("delete of the acknowledged manifest %s answered %d %s", ref, r.Status, r.Code))
		}
	}
	if r.Status != 202 {
		return
	}
	if types.RefTagRE.MatchString(ref) {
		if was, ok := rs.tags[ref]; ok {
			delete(rs.tags, ref)
			// removing the last tag of a twin may remove its own entry (the response entry of the same digest counts as the one that stays)
			if ms, ok := rs.mans[was]; ok && strings.HasPrefix(h.tk.contentName(ms.raw), "R(") {
				ms.tagged = false
				for _, d := range rs.tags {
					if d == was {
						ms.tagged = true
					}
				}
			}
		}
		return
	}
	if !validDigestTok(ref) {
		return
	}
	real := h.tk.realDigest(ref)
	if ms, ok := rs.mans[real]; ok {
		var idx types.Index
		if json.Unmarshal(ms.raw, &idx) == nil {
			if rs.orphans == nil {
				rs.orphans = map[string]bool{}
			}
			for _, c := range idx.Manifests {
				rs.orphans[c.Digest.String()] = true
				// and their descendants
				if cm, ok := rs.mans[c.Digest.String()]; ok {
					var ci types.Index
					if json.Unmarshal(cm.raw, &ci) == nil {
						for _, cc := range ci.Manifests {
							rs.orphans[cc.Digest.String()] = true
						}
					}
				}
			}
		}
		// the manifest is gone from the index; its bytes stay as a blob until collected
		if !ms.blobGone {
			rs.blobs[real] = ms.raw
		}
		delete(rs.mans, real)
	}
	for t, d := range rs.tags {
		if d == real {
			delete(rs.tags, t)
		}
	}
}

func (m *Monitors) tags(h *H, a []string, r Resp) {
	m.common(h, "TAGS", r)
	repo := a[0]
	if !m.routable(h, repo) {
		return
	}
	rs := m.repo(repo)
	if r.Status != 200 {
		if r.Status != 999 && r.Status < 500 && !(r.Status == 400 && r.Code == "NAME_INVALID") {
			m.flag(h, "C03.list-error", fmt.Sprintf("tag listing answered %d %s", r.Status, r.Code))
		}
		return
	}
	if rs.dirty {
		return
	}
	all := []string{}
	for t := range rs.tags {
		all = append(all, t)
	}
	sort.Strings(all)
	last := kv(a, "last")
	exp := []string{}
	for _, t := range all {
		if strings.Compare(last, t) < 0 {
			exp = append(exp, t)
		}
	}
	got := []string{}
	if r.Body != "[]" {
		got = strings.Split(strings.Trim(r.Body, "[]"), ",")
	}
	nStr := kv(a, "n")
	n, err := strconv.Atoi(nStr)
	switch {
	case !hasKey(a, "n") || nStr == "":
		if strings.Join(got, ",") != strings.Join(exp, ",") {
			m.flag(h, "C03.tags-exact", fmt.Sprintf("listing %v, resolvable tags %v", got, exp))
		}
	case err == nil && n > 0:
		if len(exp) > n {
			exp = exp[:n]
			if r.Link != fmt.Sprintf("next(last=%s,n=%s)", exp[len(exp)-1], nStr) {
				m.flag(h, "C03.paging", fmt.Sprintf("truncated page has Link %q", r.Link))
			}
		} else if r.Link != "" {
			m.flag(h, "C03.paging", fmt.Sprintf("complete page has Link %q", r.Link))
		}
		if strings.Join(got, ",") != strings.Join(exp, ",") {
			m.flag(h, "C03.tags-exact", fmt.Sprintf("page %v, expected %v", got, exp))
		}
	default:
		// n = 0, negative, oversized or unparsable: a valid (possibly empty) listing, i.e. a prefix of the exact one
		if len(got) > len(exp) || strings.Join(got, ",") != strings.Join(exp[:len(got)], ",") {
			m.flag(h, "C03.tags-exact", fmt.Sprintf("listing %v is not a prefix of %v", got, exp))
		}
	}
}

func (m *Monitors) refs(h *H, a []string, r Resp) {
	m.common(h, "REFS", r)
	repo, sTok := a[0], a[1]
	if !m.routable(h, repo) {
		return
	}
	rs := m.repo(repo)
	if !*h.conf.API.Referrer.Enabled {
		return
	}
	if r.Status != 200 {
		if r.Status < 500 && r.Status != 999 && !(r.Status == 400 && kv(a, "cache") != "") {
			m.flag(h, "C07.refs-status", fmt.Sprintf("referrers answered %d", r.Status))
		}
		return
	}
	if r.Ct != "ocii" {
		m.flag(h, "C07.refs-status", "referrers Content-Type "+r.Ct)
	}
	if rs.dirty || rs.refDirty || !validDigestTok(sTok) {
		return
	}
	subject := h.tk.realDigest(sTok)
	filter := kv(a, "at")
	exp := map[string]bool{}
	tooBig := map[string]bool{} // single entries that cannot fit on a page of their own may be missing
	for _, ms := range rs.mans {
		if ms.subject == subject && ms.refDesc != "" && (filter == "" || ms.at == filter) {
			exp[ms.refDesc] = true
			if int64(ms.refSize) > h.conf.API.Referrer.Limit && h.conf.API.Referrer.Limit > 0 {
				tooBig[ms.refDesc] = true
			}
		}
	}
	got := []string{}
	if r.Body != "[]" {
		got = splitDescs(r.Body)
	}
	seen := map[string]bool{}
	for _, g := range got {
		if seen[g] {
			m.flag(h, "C07.refs-exact", "descriptor listed twice: "+g)
		}
		seen[g] = true
		// C16: whatever kind of listing this is (fresh, filtered, a continuation with cache= and page=), it lists manifests of
		// this repository only: a referrer that was never pushed here comes from somewhere else
		if dtok := strings.SplitN(g, "/", 2)[0]; !rs.refEver[dtok] && !rs.dirty && kv(h.confToks, "store") != "memdir" {
			m.flag(h, "C16.cross-serve", fmt.Sprintf("referrers listing of %s in %s names %s, which was never pushed to this repository with a subject", sTok, repo, dtok))
		}
		// a continuation (cache=<digest of the response the client started with>) pages through that snapshot: what it
		// lists is judged when the chain is walked from a fresh request (below), not against the present state
		if !exp[g] && kv(a, "cache") == "" {
			m.flag(h, "C07.refs-exact", fmt.Sprintf("referrers of %s lists %s which is not a present manifest with that subject%s", sTok, g, map[bool]string{true: " and filter", false: ""}[filter != ""]))
		}
	}
	// the filter travels with the Link: the next page of a filtered listing is a page of the filtered list
	if filter != "" && r.Link != "" {
		if i := strings.Index(r.header.Get("Link"), ">"); i > 1 {
			if lu, err := url.Parse(r.header.Get("Link")[1:i]); err == nil && lu.Query().Get("artifactType") != mtRealOf(filter) {
				m.flag(h, "C07.filter", fmt.Sprintf("the Link of a listing filtered by %s carries artifactType=%q", filter, lu.Query().Get("artifactType")))
			}
		}
	}
	paged := r.Link != "" || kv(a, "page") != "" || kv(a, "cache") != ""
	if r.Link != "" && kv(a, "page") == "" && kv(a, "cache") == "" {
		// follow the Link chain: the union of the pages is the full list (minus single entries that cannot fit), each once
		all := append([]string{}, got...)
		link := r.header.Get("Link")
		for hops := 0; hops < 50 && link != ""; hops++ {
			i := strings.Index(link, ">")
			if i < 2 {
				break
			}
			lu, err := url.Parse(link[1:i])
			if err != nil {
				break
			}
			pg := h.do("GET", lu.Path, reqOpt{query: lu.Query(), mode: "refs"})
			if pg.Status != 200 {
				m.flag(h, "C07.paging", fmt.Sprintf("page %s of the referrers of %s answered %d", lu.Query().Get("page"), sTok, pg.Status))
				break
			}
			if pg.Body != "[]" {
				all = append(all, splitDescs(pg.Body)...)
			}
			link = pg.header.Get("Link")
		}
		cnt := map[string]int{}
		for _, g := range all {
			cnt[g]++
			if cnt[g] == 2 {
				m.flag(h, "C07.paging", fmt.Sprintf("following the Link chain lists %s twice", g))
			}
			if !exp[g] {
				m.flag(h, "C07.paging", fmt.Sprintf("following the Link chain lists %s which is not a present manifest with that subject", g))
			}
		}
		for e := range exp {
			if cnt[e] == 0 && !tooBig[e] {
				name := "C07.paging"
				for _, ms := range rs.mans {
					if ms.subject == subject && ms.respLost && ms.refDesc == e {
						name = "C07.refs-exact.response-collected-with-subject"
					}
				}
				m.flag(h, name, fmt.Sprintf("following the Link chain never lists %s", e))
			}
		}
	}
	lost := map[string]bool{}
	for _, ms := range rs.mans {
		if ms.subject == subject && ms.respLost {
			lost[ms.refDesc] = true
		}
	}
	if !paged {
		for e := range exp {
			if !seen[e] && !tooBig[e] {
				name := "C07.refs-exact"
				if lost[e] {
					name += ".response-collected-with-subject"
				}
				m.flag(h, name, fmt.Sprintf("referrers of %s lacks %s", sTok, e))
			}
		}
	}
	anyRef := false
	for _, ms := range rs.mans {
		if ms.subject == subject && ms.refDesc != "" && !ms.respLost {
			anyRef = true
		}
	}
	if filter != "" && r.Filt != "artifactType" && anyRef {
		m.flag(h, "C07.filter", "filtered response without OCI-Filters-Applied")
	}
	if filter == "" && r.Filt != "" {
		m.flag(h, "C07.filter", "unfiltered response announces a filter")
	}
}

// splitDescs splits "[a,b,c]" where entries do not contain ',' except inside annotations (k=v;k=v uses ';')
func splitDescs(body string) []string {
	return strings.Split(strings.TrimSuffix(strings.TrimPrefix(body, "["), "]"), ",")
}

func (m *Monitors) raw(h *H, a []string, r Resp) {
	m.common(h, "RAW "+a[0]+" "+a[1], r)
}

// rooted: the digests that the top-level entries of the index lead to (an entry itself, and the children listed by
// index-shaped bodies, transitively); referrers responses are not roots (they are kept only with their subject).
// A manifest outside this set exists only as a memory-only child record, or hangs on a response: what the open
// findings F33 / F35 / F39 are about.
func (m *Monitors) rooted(h *H, repo string) map[string]bool {
	ents, err := h.srv.VerifIndexEntries(repo)
	if err != nil {
		return nil
	}
	rs := m.repo(repo)
	seen := map[string]bool{}
	queue := []string{}
	for _, e := range ents {
		if e[2] == "" {
			queue = append(queue, e[0])
		}
	}
	for len(queue) > 0 {
		d := queue[0]
		queue = queue[1:]
		if seen[d] {
			continue
		}
		seen[d] = true
		var raw []byte
		if ms, ok := rs.mans[d]; ok {
			raw = ms.raw
		} else if b, ok := rs.blobs[d]; ok {
			raw = b
		}
		var idx types.Index
		if raw != nil && json.Unmarshal(raw, &idx) == nil {
			for _, c := range idx.Manifests {
				queue = append(queue, c.Digest.String())
			}
		}
	}
	return seen
}

// preGC is called immediately before every collection of a repository
func (m *Monitors) preGC(h *H, repo string) {
	if m.rootedPre == nil {
		m.rootedPre = map[string]map[string]bool{}
	}
	m.rootedPre[repo] = nil
	if m.routable(h, repo) {
		m.rootedPre[repo] = m.rooted(h, repo)
	}
}

func (m *Monitors) gc(h *H, repo string) {
	rs := m.repo(repo)
	rooted := m.rootedPre[repo]
	if rooted != nil {
		for d, ms := range rs.mans {
			if !rooted[d] {
				ms.noRoot = true
			}
		}
	}
	// a response is kept only with its subject (ReferrersWithSubj / ReferrersDangling): referrers that stay are no longer listed
	if *h.conf.Storage.GC.ReferrersWithSubj || *h.conf.Storage.GC.ReferrersDangling {
		for _, ms := range rs.mans {
			if sm, ok := rs.mans[ms.subject]; ms.subject != "" && (!ok || sm.blobGone || (rooted != nil && !rooted[ms.subject])) {
				ms.respLost = true
			}
		}
	}
	// referrers that the policy removed with their response (subject not reached by the collection) are no longer
	// acknowledged content; what they listed as children may linger as memory-only child records (F32)
	acc := map[string][]string{"Accept": {mtReal["ocim"], mtReal["ocii"], mtReal["dockm"], mtReal["dockl"]}}
	for d, ms := range rs.mans {
		if !ms.respLost || ms.subject == "" {
			continue
		}
		if g := h.do("HEAD", "/v2/"+repo+"/manifests/"+d, reqOpt{mode: "head", hdr: acc}); g.Status == 404 {
			var idx types.Index
			if json.Unmarshal(ms.raw, &idx) == nil {
				if rs.orphans == nil {
					rs.orphans = map[string]bool{}
				}
				for _, c := range idx.Manifests {
					rs.orphans[c.Digest.String()] = true
				}
			}
			// the index entry is gone; the bytes may stay as a plain blob (a recent upload within the grace period)
			if g2 := h.do("HEAD", "/v2/"+repo+"/blobs/"+d, reqOpt{mode: "head"}); g2.Status == 200 && !ms.blobGone {
				rs.blobs[d] = ms.raw
			}
			delete(rs.mans, d)
		}
	}
	if *h.conf.Storage.GC.Untagged || rs.refDirty || (h.conf.Storage.GC.ReferrersDangling != nil && *h.conf.Storage.GC.ReferrersDangling) {
		// the policy may remove manifests: what is retained is judged by the collection properties (C05, C06), not here
		rs.dirty = true
		return
	}
	// untagged collection off and no manifest blob deleted through the blob API: every index entry and everything
	// reachable from it is retained, only unreferenced plain blobs may be removed — drop those from the shadow
	for d := range rs.blobs {
		if g := h.do("HEAD", "/v2/"+repo+"/blobs/"+d, reqOpt{mode: "head"}); g.Status != 200 {
			delete(rs.blobs, d)
			delete(m.aged, repo+"|"+d)
		}
	}
}

// ---------------------------------------------------------------- directory level (C10, C14)

// layoutOK: every repository directory that holds content is a valid OCI layout describing the API state:
// oci-layout with the supported version, a parseable index.json with unique tags whose entries each have a blob of
// the recorded size and digest, blobs stored as blobs/<alg>/<hex> with matching content (C10, also C01 on disk)
func (m *Monitors) layoutOK(h *H) {
	if kv(h.confToks, "store") != "dir" || h.root == "" {
		return
	}
	_ = filepath.Walk(h.root, func(p string, info os.FileInfo, err error) error {
		if err != nil || !info.IsDir() {
			return nil
		}
		rel, _ := filepath.Rel(h.root, p)
		base := filepath.Base(p)
		if base == "blobs" || base == "_uploads" {
			// a blobs/ directory belongs to the repository above it
			if base == "blobs" {
				m.repoLayout(h, filepath.Dir(p), filepath.Dir(rel))
			}
			return filepath.SkipDir
		}
		return nil
	})
}

func (m *Monitors) repoLayout(h *H, dir, name string) {
	nBlobs := 0
	algs, _ := os.ReadDir(filepath.Join(dir, "blobs"))
	for _, a := range algs {
		if !a.IsDir() || !digest.Algorithm(a.Name()).Available() {
			m.flag(h, "C10.layout-shape", fmt.Sprintf("%s: blobs/%s is not an algorithm directory", name, a.Name()))
			continue
		}
		es, _ := os.ReadDir(filepath.Join(dir, "blobs", a.Name()))
		for _, e := range es {
			nBlobs++
			if !e.Type().IsRegular() {
				m.flag(h, "C10.layout-shape", fmt.Sprintf("%s: blobs/%s/%s is not a regular file", name, a.Name(), e.Name()[:min(12, len(e.Name()))]))
				continue
			}
			b, err := os.ReadFile(filepath.Join(dir, "blobs", a.Name(), e.Name()))
			if err != nil {
				continue
			}
			alg := digest.Algorithm(a.Name())
			if !alg.Available() || alg.FromBytes(b).Encoded() != e.Name() {
				m.flag(h, "C10.blob-name", fmt.Sprintf("%s: blobs/%s/%s does not hash to its name", name, a.Name(), e.Name()[:12]))
			}
		}
	}
	if nBlobs == 0 {
		return // holds no content
	}
	lb, err := os.ReadFile(filepath.Join(dir, "oci-layout"))
	var l types.Layout
	if err != nil || json.Unmarshal(lb, &l) != nil || l.Version != types.LayoutVersion {
		m.flag(h, "C10.layout-file", fmt.Sprintf("%s holds %d blobs but has no valid oci-layout", name, nBlobs))
	}
	ib, err := os.ReadFile(filepath.Join(dir, "index.json"))
	var idx types.Index
	if err != nil || json.Unmarshal(ib, &idx) != nil {
		m.flag(h, "C10.index-file", fmt.Sprintf("%s holds %d blobs but index.json is missing or unparsable", name, nBlobs))
		return
	}
	tags := map[string]int{}
	rs := m.repo(name)
	for _, d := range idx.Manifests {
		if t := d.Annotations[types.AnnotRefName]; t != "" {
			tags[t]++
			if tags[t] == 2 {
				m.flag(h, "C10.index-tags", fmt.Sprintf("%s: tag %s twice in index.json", name, t))
			}
		}
		if d.Digest.Validate() != nil {
			m.flag(h, "C10.index-entry", fmt.Sprintf("%s: index.json entry with invalid digest %q", name, d.Digest))
			continue
		}
		fi, err := os.Stat(filepath.Join(dir, "blobs", d.Digest.Algorithm().String(), d.Digest.Encoded()))
		if err != nil {
			// an entry may lack its blob only after an API blob delete (until the next collection)
			if ms, ok := rs.mans[d.Digest.String()]; ok && ms.blobGone {
				continue
			}
			if rs.dirty || rs.refDirty {
				continue
			}
			m.flag(h, "C10.index-entry", fmt.Sprintf("%s: index.json lists %s but the blob is missing", name, h.tk.tokDigest(d.Digest.String())))
		} else if fi.Size() != d.Size {
			m.flag(h, "C10.index-entry", fmt.Sprintf("%s: index.json records size %d for %s, file has %d", name, d.Size, h.tk.tokDigest(d.Digest.String()), fi.Size()))
		}
	}
	// the disk describes the API state: every tag the API resolves is in index.json and vice versa
	if !rs.dirty {
		for t, real := range rs.tags {
			found := false
			for _, d := range idx.Manifests {
				if d.Annotations[types.AnnotRefName] == t && d.Digest.String() == real {
					found = true
				}
			}
			if !found {
				m.flag(h, "C10.disk-eq-api", fmt.Sprintf("%s: tag %s -> %s acknowledged but not in index.json", name, t, h.tk.tokDigest(real)))
			}
		}
		for t := range tags {
			if _, ok := rs.tags[t]; !ok {
				m.flag(h, "C10.disk-eq-api", fmt.Sprintf("%s: index.json has tag %s that the API state does not", name, t))
			}
		}
	}
}

// observe: the read surface of a repository over the universe the history has touched (used around a restart)
func (m *Monitors) observe(h *H, repo string) []string {
	rs := m.repo(repo)
	out := []string{}
	add := func(what string, r Resp) {
		code := r.Code
		if r.Status == 404 {
			code = "" // which not-found code is given for an item whose blob was deleted through the API is not judged
		}
		out = append(out, fmt.Sprintf("%s -> %d %s %s %s %s", what, r.Status, code, r.Dcd, r.Body, r.Ct))
	}
	add("TAGS", h.do("GET", "/v2/"+repo+"/tags/list", reqOpt{mode: "tags"}))
	acc := map[string][]string{"Accept": {mtReal["ocim"], mtReal["ocii"], mtReal["dockm"], mtReal["dockl"]}}
	digs := map[string]bool{}
	for d := range rs.blobs {
		digs[d] = true
	}
	for d := range rs.mans {
		digs[d] = true
	}
	for d := range m.everSeen[repo] {
		digs[d] = true
	}
	ds := []string{}
	for d := range digs {
		ds = append(ds, d)
	}
	sort.Strings(ds)
	subj := map[string]bool{}
	for _, d := range ds {
		add("BHEAD "+h.tk.tokDigest(d), h.do("HEAD", "/v2/"+repo+"/blobs/"+d, reqOpt{mode: "head"}))
		add("MGET "+h.tk.tokDigest(d), h.do("GET", "/v2/"+repo+"/manifests/"+d, reqOpt{mode: "get", hdr: acc}))
		subj[d] = true
	}
	for _, ms := range rs.mans {
		if ms.subject != "" {
			subj[ms.subject] = true
		}
	}
	ts := []string{}
	for t := range rs.tags {
		ts = append(ts, t)
	}
	sort.Strings(ts)
	for _, t := range ts {
		add("MGET "+t, h.do("GET", "/v2/"+repo+"/manifests/"+t, reqOpt{mode: "get", hdr: acc}))
	}
	if *h.conf.API.Referrer.Enabled {
		ss := []string{}
		for s := range subj {
			ss = append(ss, s)
		}
		sort.Strings(ss)
		for _, s := range ss {
			r := h.do("GET", "/v2/"+repo+"/referrers/"+s, reqOpt{mode: "refs"})
			b := splitDescs(r.Body)
			sort.Strings(b)
			out = append(out, fmt.Sprintf("REFS %s -> %d %v", h.tk.tokDigest(s), r.Status, b))
		}
	}
	return out
}

// beforeRestart / afterRestart: closing the server and opening a new one on the same directory yields the same
// answer to every read request (C10)
func (m *Monitors) beforeRestart(h *H) {
	m.pre = map[string][]string{}
	if kv(h.confToks, "store") != "dir" {
		return
	}
	for repo := range m.repos {
		if m.routable(h, repo) {
			m.pre[repo] = m.observe(h, repo)
		}
	}
}

func (m *Monitors) afterRestart(h *H, sameConf bool) {
	if kv(h.confToks, "store") != "dir" || !sameConf {
		return
	}
	for repo, before := range m.pre {
		after := m.observe(h, repo)
		if os.Getenv("VERIF_DEBUG") != "" {
			fmt.Fprintf(os.Stderr, "restart %s\n before %q\n after  %q\n", repo, before, after)
		}
		for i := range before {
			if i < len(after) && before[i] != after[i] {
				name := "C10.restart-differs"
				// cause: a manifest deleted by digest that a present index still lists as a child is not found until
				// the restart and found again after it (the child scan of the index load re-adds it)
				if f := strings.Fields(before[i]); len(f) >= 4 && f[0] == "MGET" && f[3] == "404" && strings.Contains(after[i], "-> 200") &&
					m.childOfPresentIndex(h, repo, f[1]) {
					name = "C10.restart-differs.deleted-child-of-index"
				}
				// cause: the child record of an index that was deleted (or whose blob is gone) outlives it in memory and
				// disappears with the restart: the digest is neither a present manifest nor a child of a present index
				if f := strings.Fields(before[i]); len(f) >= 4 && f[0] == "MGET" && f[3] == "200" && strings.Contains(after[i], "-> 404") &&
					!m.childOfPresentIndex(h, repo, f[1]) && !m.presentManifest(h, repo, f[1]) {
					name = "C10.restart-differs.orphan-child-record"
				}
				m.flag(h, name, fmt.Sprintf("%s: before restart %q, after %q", repo, before[i], after[i]))
				break
			}
		}
	}
}

// childOfPresentIndex: some index manifest present in the repository lists the digest (token) as a child
func (m *Monitors) childOfPresentIndex(h *H, repo, tok string) bool {
	rs := m.repo(repo)
	for _, ms := range rs.mans {
		var idx types.Index
		if json.Unmarshal(ms.raw, &idx) != nil {
			continue
		}
		for _, c := range idx.Manifests {
			if h.tk.tokDigest(c.Digest.String()) == tok {
				return true
			}
		}
	}
	return false
}

func (m *Monitors) presentManifest(h *H, repo, tok string) bool {
	for d, ms := range m.repo(repo).mans {
		if h.tk.tokDigest(d) == tok && !ms.blobGone {
			return true
		}
	}
	return false
}

// ---------------------------------------------------------------- C14: nothing under the directory changes

func fsSnapshot(root string) []string {
	out := []string{}
	_ = filepath.Walk(root, func(p string, info os.FileInfo, err error) error {
		if err != nil {
			return nil
		}
		rel, _ := filepath.Rel(root, p)
		if info.IsDir() {
			out = append(out, fmt.Sprintf("%s/ mode=%v", rel, info.Mode().Perm()))
			return nil
		}
		b, _ := os.ReadFile(p)
		out = append(out, fmt.Sprintf("%s size=%d sha=%s mtime=%d mode=%v", rel, info.Size(), digest.FromBytes(b).Encoded()[:16], info.ModTime().UnixNano(), info.Mode().Perm()))
		return nil
	})
	sort.Strings(out)
	return out
}

func (m *Monitors) protectedFS(h *H) bool {
	st := kv(h.confToks, "store")
	return h.root != "" && (st == "memdir" || (st == "dir" && *h.conf.Storage.ReadOnly))
}

// fsBaseline: a read-only directory store and a memory store over a directory never create, modify or delete anything
func (m *Monitors) fsBaseline(h *H) {
	m.fsBase = nil
	if m.protectedFS(h) {
		m.fsBase = fsSnapshot(h.root)
	}
}

func (m *Monitors) fsUnchanged(h *H) {
	if m.fsBase == nil || !m.protectedFS(h) {
		return
	}
	now := fsSnapshot(h.root)
	if strings.Join(now, "\n") == strings.Join(m.fsBase, "\n") {
		return
	}
	was := map[string]bool{}
	for _, l := range m.fsBase {
		was[l] = true
	}
	is := map[string]bool{}
	for _, l := range now {
		is[l] = true
		if !was[l] {
			m.flag(h, "C14.fs-changed", "new or modified: "+l)
			m.fsBase = now
			return
		}
	}
	for _, l := range m.fsBase {
		if !is[l] {
			m.flag(h, "C14.fs-changed", "removed: "+l)
			break
		}
	}
	m.fsBase = now
}

// ---------------------------------------------------------------- collections at the HTTP level (C05, C06)

type gcPre struct {
	complete map[string]bool     // tag -> the image behind it was completely pullable
	present  map[string]bool     // real digest -> HEAD blob 200
	manifest map[string]bool     // real digest -> GET manifest 200
	refs     map[string][]string // subject -> sorted referrers listing
	obs      []string
	aged     map[string]bool
}

// pullable: the manifest behind ref and everything it references (children, config, layers) can be pulled
func (m *Monitors) pullable(h *H, repo, ref string, depth int) bool {
	acc := map[string][]string{"Accept": {mtReal["ocim"], mtReal["ocii"], mtReal["dockm"], mtReal["dockl"]}}
	r := h.do("GET", "/v2/"+repo+"/manifests/"+ref, reqOpt{mode: "get", hdr: acc})
	if r.Status != 200 {
		return false
	}
	ct := r.header.Get("Content-Type")
	if types.MediaTypeIndex(ct) {
		var idx types.Index
		if json.Unmarshal(r.raw, &idx) != nil {
			return false
		}
		for _, c := range idx.Manifests {
			if c.Digest.Validate() != nil {
				return false
			}
			if types.MediaTypeIndex(c.MediaType) || types.MediaTypeImage(c.MediaType) {
				if depth > 4 || !m.pullable(h, repo, c.Digest.String(), depth+1) {
					return false
				}
			} else if g := h.do("HEAD", "/v2/"+repo+"/blobs/"+c.Digest.String(), reqOpt{mode: "head"}); g.Status != 200 {
				return false
			}
		}
		return true
	}
	var man types.Manifest
	if json.Unmarshal(r.raw, &man) != nil {
		return false
	}
	ds := append([]types.Descriptor{man.Config}, man.Layers...)
	for _, d := range ds {
		if d.Digest.Validate() != nil {
			return false
		}
		if g := h.do("HEAD", "/v2/"+repo+"/blobs/"+d.Digest.String(), reqOpt{mode: "head"}); g.Status != 200 {
			return false
		}
	}
	return true
}

func (m *Monitors) gcSnapshot(h *H, repo string) *gcPre {
	p := &gcPre{complete: map[string]bool{}, present: map[string]bool{}, manifest: map[string]bool{}, refs: map[string][]string{}}
	acc := map[string][]string{"Accept": {mtReal["ocim"], mtReal["ocii"], mtReal["dockm"], mtReal["dockl"]}}
	t := h.do("GET", "/v2/"+repo+"/tags/list", reqOpt{mode: "tags"})
	if t.Status == 200 && t.Body != "[]" {
		for _, tag := range strings.Split(strings.Trim(t.Body, "[]"), ",") {
			p.complete[tag] = m.pullable(h, repo, tag, 0)
		}
	}
	for d := range m.everSeen[repo] {
		p.present[d] = h.do("HEAD", "/v2/"+repo+"/blobs/"+d, reqOpt{mode: "head"}).Status == 200
		p.manifest[d] = h.do("GET", "/v2/"+repo+"/manifests/"+d, reqOpt{mode: "get", hdr: acc}).Status == 200
		if *h.conf.API.Referrer.Enabled {
			r := h.do("GET", "/v2/"+repo+"/referrers/"+d, reqOpt{mode: "refs"})
			b := splitDescs(r.Body)
			sort.Strings(b)
			p.refs[d] = b
		}
	}
	return p
}

// beforeGC / afterGC bracket an explicit collection of one repository
func (m *Monitors) beforeGC(h *H, repo string) {
	m.preGC(h, repo)
	// C16: a collection of one repository changes nothing in any other (nested names included)
	m.othersPre = map[string][]string{}
	for other := range m.repos {
		if other != repo && m.routable(h, other) && len(m.everSeen[other]) > 0 {
			m.othersPre[other] = m.observe(h, other)
		}
	}
	if !m.routable(h, repo) {
		m.gcBefore = nil
		return
	}
	m.gcBefore = m.gcSnapshot(h, repo)
	m.gcBefore.aged = map[string]bool{}
	for k, v := range m.aged {
		m.gcBefore.aged[k] = v
	}
}

func (m *Monitors) afterGC(h *H, repo string) {
	for other, before := range m.othersPre {
		after := m.observe(h, other)
		for i := range before {
			if i < len(after) && before[i] != after[i] {
				m.flag(h, "C16.collection-crosses-repositories", fmt.Sprintf("collecting %s changed %s: before %q, after %q", repo, other, before[i], after[i]))
				break
			}
		}
	}
	m.othersPre = nil
	pre := m.gcBefore
	if pre == nil {
		return
	}
	post := m.gcSnapshot(h, repo)
	rs := m.repo(repo)
	// C05: every tagged image that was completely pullable stays completely pullable
	for tag, ok := range pre.complete {
		if ok && !post.complete[tag] {
			m.flag(h, "C05.tagged-incomplete", fmt.Sprintf("%s:%s was completely pullable before the collection and is not afterwards", repo, tag))
		}
	}
	untaggedOff := !*h.conf.Storage.GC.Untagged
	grace := h.conf.Storage.GC.GracePeriod >= 0
	for d, was := range pre.manifest {
		if !was || post.manifest[d] {
			continue
		}
		ms := rs.mans[d]
		// not judged once a manifest blob was deleted through the blob API (the index entry above it cannot be walked)
		if untaggedOff && ms != nil && ms.subject == "" && !rs.refDirty {
			name := "C05.untagged-removed"
			if rs.orphans[d] {
				// cause: the manifest had become a child record of an index (no top-level entry of its own) and that index was deleted
				name = "C05.untagged-removed.child-of-deleted-index"
			} else if ms.noRoot {
				// cause: no index entry of its own and no top-level entry leads to it (its parent is itself only a child
				// record of a referrers response, which is dropped with its subject)
				name = "C05.untagged-removed.child-record-without-root"
			}
			m.flag(h, name, fmt.Sprintf("manifest %s removed although untagged collection is off", h.tk.tokDigest(d)))
		}
	}
	for d, was := range pre.present {
		if was && !post.present[d] && grace && !pre.aged[repo+"|"+d] {
			// a referrers response document is the registry's own: it goes with its subject under the configured policy; the
			// grace period protects what clients uploaded or pushed (a twin a client pushed is in the shadow as a manifest)
			if _, pushed := rs.mans[d]; !pushed && strings.HasPrefix(strings.SplitN(h.tk.tokDigest(d), ":", 2)[1], "R(") {
				continue
			}
			m.flag(h, "C05.recent-removed", fmt.Sprintf("%s is younger than the grace period and was removed", h.tk.tokDigest(d)))
		}
	}
	// C05: the referrers of a subject that is still pullable by tag are still listed with their content
	for tag, ok := range pre.complete {
		if !ok {
			continue
		}
		d := rs.tags[tag]
		if d == "" {
			continue
		}
		for _, e := range pre.refs[d] {
			found := false
			for _, e2 := range post.refs[d] {
				if e == e2 {
					found = true
				}
			}
			if found && e != "" && !m.noProbes {
				// "… together with their content": what is still listed is still there as a manifest
				real := h.tk.realDigest(strings.SplitN(e, "/", 2)[0])
				if ms, ok := rs.mans[real]; ok && !ms.blobGone && !rs.deleted[real] {
					acc := map[string][]string{"Accept": {mtReal["ocim"], mtReal["ocii"], mtReal["dockm"], mtReal["dockl"]}}
					if g := h.do("HEAD", "/v2/"+repo+"/manifests/"+real, reqOpt{mode: "head", hdr: acc}); g.Status == 404 {
						m.flag(h, "C05.referrer-lost", fmt.Sprintf("referrer %s of the tagged subject %s:%s is still listed after the collection but its manifest is gone (%s)", e, repo, tag, g.Code))
					}
				}
			}
			if !found && e != "" {
				m.flag(h, "C05.referrer-lost", fmt.Sprintf("referrer %s of the tagged subject %s:%s is no longer listed after the collection", e, repo, tag))
			}
		}
	}
	// what the collection removed is no longer acknowledged content
	for d, ok := range post.present {
		if !ok {
			delete(rs.blobs, d)
			delete(m.aged, repo+"|"+d)
		}
	}
	// C06: a second pass changes nothing (no forced reload here: nothing happened since the first pass)
	// What no top-level entry leads to after the first pass can only be a memory-only child record whose parent is gone
	// (F32, judged by C10): the directory store drops such records whenever it reloads index.json, and the moment of a
	// reload depends on the clock (a finished session's cleanup goroutine moves timeMod) - not a change made by the pass
	var rootedAfter map[string]bool
	if m.routable(h, repo) {
		rootedAfter = m.rooted(h, repo)
	}
	_ = h.srv.VerifGC(repo)
	again := m.gcSnapshot(h, repo)
	for d, was := range post.present {
		if was != again.present[d] {
			m.flag(h, "C06.second-pass-changes", fmt.Sprintf("blob %s: present=%v after one collection, %v after a second", h.tk.tokDigest(d), was, again.present[d]))
			break
		}
	}
	for d, was := range post.manifest {
		if was && !again.manifest[d] && rootedAfter != nil && !rootedAfter[d] {
			continue
		}
		if was != again.manifest[d] {
			m.flag(h, "C06.second-pass-changes", fmt.Sprintf("manifest %s: present=%v after one collection, %v after a second", h.tk.tokDigest(d), was, again.manifest[d]))
			break
		}
	}
	// C06: no index entry without backing content, on disk as well: right after a pass index.json of the directory store lists
	// nothing whose blob file is missing (an entry whose blob a client deleted through the blob API is the client's doing)
	if kv(h.confToks, "store") == "dir" && h.root != "" && m.routable(h, repo) {
		dir := filepath.Join(h.root, repo)
		if ib, err := os.ReadFile(filepath.Join(dir, "index.json")); err == nil {
			var idx types.Index
			if json.Unmarshal(ib, &idx) == nil {
				for _, d := range idx.Manifests {
					if d.Digest.Validate() != nil {
						continue
					}
					if ms, ok := rs.mans[d.Digest.String()]; ok && ms.blobGone {
						continue
					}
					if rs.deleted[d.Digest.String()] {
						continue
					}
					if _, err := os.Stat(filepath.Join(dir, "blobs", d.Digest.Algorithm().String(), d.Digest.Encoded())); err != nil {
						m.flag(h, "C06.index-entry-without-blob", fmt.Sprintf("%s: after the collection index.json still lists %s, whose blob is gone", repo, h.tk.tokDigest(d.Digest.String())))
						break
					}
				}
			}
		}
	}
	// C06: no index entry without backing content: every tag still listed resolves
	for tag := range post.complete {
		acc := map[string][]string{"Accept": {mtReal["ocim"], mtReal["ocii"], mtReal["dockm"], mtReal["dockl"]}}
		if g := h.do("HEAD", "/v2/"+repo+"/manifests/"+tag, reqOpt{mode: "head", hdr: acc}); g.Status != 200 {
			m.flag(h, "C06.index-entry-without-blob", fmt.Sprintf("%s:%s is listed after the collection but answers %d", repo, tag, g.Status))
		}
	}
	// C06: ... nor a child record: a digest whose blob is gone is simply unknown after the pass (MANIFEST_UNKNOWN), it
	// is not "known, content missing" (MANIFEST_BLOB_UNKNOWN)
	{
		acc := map[string][]string{"Accept": {mtReal["ocim"], mtReal["ocii"], mtReal["dockm"], mtReal["dockl"]}}
		for d, ok := range post.present {
			if ok {
				continue
			}
			if g := h.do("GET", "/v2/"+repo+"/manifests/"+d, reqOpt{mode: "get", hdr: acc}); g.Status == 404 && g.Code == "MANIFEST_BLOB_UNKNOWN" {
				m.flag(h, "C06.index-entry-without-blob", fmt.Sprintf("%s is still recorded after the collection although its content is gone (MANIFEST_BLOB_UNKNOWN)", h.tk.tokDigest(d)))
			}
		}
	}
	// C06: unreferenced blobs are removed once the grace period has elapsed or is disabled
	// (conservatively: anything named by any manifest-shaped content that is still present counts as referenced)
	referenced := map[string]bool{}
	for d, ok := range post.present {
		if !ok {
			continue
		}
		raw := rs.blobs[d]
		if ms, isMan := rs.mans[d]; isMan {
			raw = ms.raw
			referenced[d] = true
		}
		var man types.Manifest
		var idx types.Index
		if len(raw) > 0 && raw[0] == '{' {
			if json.Unmarshal(raw, &man) == nil {
				referenced[man.Config.Digest.String()] = true
				for _, l := range man.Layers {
					referenced[l.Digest.String()] = true
				}
			}
			if json.Unmarshal(raw, &idx) == nil {
				for _, c := range idx.Manifests {
					referenced[c.Digest.String()] = true
				}
			}
		}
	}
	// what a registered referrers response lists is referenced as long as the response is kept
	if ents, err := h.srv.VerifIndexEntries(repo); err == nil {
		for _, e := range ents {
			if e[2] == "" {
				continue
			}
			if g := h.do("GET", "/v2/"+repo+"/blobs/"+e[0], reqOpt{mode: "get"}); g.Status == 200 {
				var idx types.Index
				if json.Unmarshal(g.raw, &idx) == nil {
					for _, c := range idx.Manifests {
						referenced[c.Digest.String()] = true
					}
				}
			}
		}
	}
	for d, ok := range post.present {
		if !ok || referenced[d] {
			continue
		}
		if _, isMan := rs.mans[d]; isMan {
			continue
		}
		if strings.HasPrefix(h.tk.contentName(rs.blobs[d]), "R(") {
			continue
		}
		if _, plain := rs.blobs[d]; plain && (!grace || pre.aged[repo+"|"+d]) && !post.manifest[d] {
			m.flag(h, "C06.garbage-kept", fmt.Sprintf("unreferenced blob %s survives a collection with the grace period elapsed or disabled", h.tk.tokDigest(d)))
		}
	}
	m.gcBefore = nil
}

// generic: monitors that apply to every request line
func (m *Monitors) generic(h *H, line, out string) {
	t := strings.Fields(line)
	if len(t) < 2 {
		return
	}
	switch t[0] {
	case "UPOST", "UPATCH", "UPUT", "UGET", "UDEL", "BGET", "BHEAD", "BDEL", "MPUT", "MGET", "MHEAD", "MDEL", "TAGS", "REFS":
		// only repository names of the OCI grammar are routed (C15, C16)
		if !reRepo.MatchString(t[1]) && !strings.HasPrefix(out, "404 ") {
			m.flag(h, "C15.routes-grammar", fmt.Sprintf("%s addressed to the invalid repository name %q was routed: %s", t[0], t[1], strings.SplitN(out, " loc=", 2)[0]))
		}
	}
	if t[0] == "RAW" && len(t) >= 3 && strings.HasPrefix(t[2], "/v2/") && !strings.ContainsAny(t[2], "%") && !strings.Contains(t[2], "//") &&
		!strings.Contains(t[2], "/./") && !strings.Contains(t[2], "/../") && !strings.HasSuffix(t[2], "/.") && !strings.HasSuffix(t[2], "/..") {
		// /v2/<name>/<tail>: the name of a raw path that reaches a handler must be of the grammar
		p := strings.Trim(strings.TrimPrefix(t[2], "/v2/"), "/")
		for _, tail := range []string{"/tags/list", "/manifests/", "/blobs/", "/referrers/"} {
			if i := strings.LastIndex(p, tail); i > 0 {
				name := p[:i]
				rest := p[i+len(tail):]
				if tail == "/blobs/" && strings.HasPrefix(rest, "uploads/") {
					continue
				}
				if (tail == "/tags/list" && rest == "" || tail != "/tags/list" && rest != "" && !strings.Contains(rest, "/")) &&
					!reRepo.MatchString(name) && !strings.HasPrefix(out, "404 ") {
					m.flag(h, "C15.routes-grammar", fmt.Sprintf("raw %s %s with the invalid repository name %q was routed: %s", t[1], t[2], name, out))
				}
				break
			}
		}
	}
	// a switched-off or read-only registry acknowledges no change (C14; C19: each switch has its effect)
	if st, err := strconv.Atoi(strings.SplitN(out, " ", 2)[0]); err == nil && st < 400 {
		ro, push, del, bdel := *h.conf.Storage.ReadOnly, *h.conf.API.PushEnabled, *h.conf.API.DeleteEnabled, *h.conf.API.Blob.DeleteEnabled
		switch t[0] {
		case "UPOST", "UPATCH", "UPUT", "MPUT":
			if ro || !push {
				m.flag(h, "C14.disabled-accepted", fmt.Sprintf("%s answered %d although pushing is disabled (ro=%v push=%v)", t[0], st, ro, push))
			}
		case "MDEL":
			if ro || !del {
				m.flag(h, "C14.disabled-accepted", fmt.Sprintf("MDEL answered %d although deleting is disabled (ro=%v del=%v)", st, ro, del))
			}
		case "BDEL":
			if ro || !del || !bdel {
				m.flag(h, "C14.disabled-accepted", fmt.Sprintf("BDEL answered %d although blob deleting is disabled (ro=%v del=%v bdel=%v)", st, ro, del, bdel))
			}
		}
	}
	// nothing outside the root is ever served (C16)
	if strings.Contains(out, "outsidesecret") {
		m.flag(h, "C16.outside-root", "content of a layout outside the root directory was served or acknowledged: "+strings.SplitN(out, " ct=", 2)[0])
	}
	// the sentinel tree around the root never changes (C16)
	if h.sentinel != "" && h.outside != nil {
		now := fsSnapshot(filepath.Join(h.sentinel, "outside"))
		if strings.Join(now, "\n") != strings.Join(h.outside, "\n") {
			m.flag(h, "C16.sentinel-changed", "the directory next to the root was modified")
			h.outside = now
		}
		es, _ := os.ReadDir(h.sentinel)
		if len(es) != 2 {
			m.flag(h, "C16.sentinel-changed", fmt.Sprintf("%d entries next to the root, expected the root and the outside layout", len(es)))
		}
	}
}
