module verifharness

go 1.21

require (
	github.com/olareg/olareg v0.0.0
	github.com/opencontainers/go-digest v1.0.0
)

replace github.com/olareg/olareg => /repo
