// Package verifsync is added to the tree under test by `go test -overlay` (as internal/verifsync); the sync.Mutex fields of
// internal/cache, internal/store and package olareg are rewritten to verifsync.Mutex by vlib/p_locks.py.
// It records, per goroutine, the stack of held mutex instances and every (held, acquired) pair with both call sites,
// names each instance's lock class from the static site table of tools/lockfacts, and offers a hook to park a goroutine
// at a lock operation so that a harness can force an interleaving.
package verifsync

import (
	"bytes"
	"fmt"
	"path/filepath"
	"runtime"
	"sort"
	"strconv"
	"strings"
	"sync"
)

type Mutex struct {
	mu    sync.Mutex
	class string // set at the first Lock whose site is in the table
	first string
}

type Edge struct {
	FromClass, ToClass string
	FromSite, ToSite   string
	From, To           *Mutex
	Self               bool
}

type heldEntry struct {
	m    *Mutex
	site string
}

var (
	gmu   sync.Mutex
	held  = map[uint64][]heldEntry{}
	edges = map[[2]*Mutex]*Edge{}
	sites map[string]string // "internal/store/dir.go:109" -> class, "@cache", or "cache:<qualifier>" for a call into a cache
	root  string
	locks int
	// Hook, when set, is called outside the recorder's own lock: ev is "before-lock", "after-lock" or "unlock",
	// fn the fully qualified name of the calling function
	Hook func(ev, fn string, m *Mutex)
)

// Configure sets the repository root (to make sites relative) and the static site table.
func Configure(repoRoot string, table map[string]string) {
	gmu.Lock()
	defer gmu.Unlock()
	root, sites = repoRoot, table
}

// Reset forgets everything recorded so far (between histories); lock classes of live instances are kept.
func Reset() {
	gmu.Lock()
	defer gmu.Unlock()
	edges = map[[2]*Mutex]*Edge{}
	locks = 0
}

func gid() uint64 {
	b := make([]byte, 64)
	b = b[:runtime.Stack(b, false)]
	b = bytes.TrimPrefix(b, []byte("goroutine "))
	b = b[:bytes.IndexByte(b, ' ')]
	n, _ := strconv.ParseUint(string(b), 10, 64)
	return n
}

func rel(file string) string {
	if root != "" {
		if r, err := filepath.Rel(root, file); err == nil && !strings.HasPrefix(r, "..") {
			return filepath.ToSlash(r)
		}
	}
	return file
}

// callSite: position and function of the caller of Lock/Unlock, and the lock class if the site table knows it
func callSite() (site, fn, class string) {
	pcs := make([]uintptr, 16)
	n := runtime.Callers(3, pcs)
	frames := runtime.CallersFrames(pcs[:n])
	first := true
	for {
		fr, more := frames.Next()
		s := fmt.Sprintf("%s:%d", rel(fr.File), fr.Line)
		if first {
			site, fn = s, fr.Function
			first = false
			if c, ok := sites[s]; ok && c != "@cache" {
				return site, fn, c
			}
			if sites == nil || sites[s] != "@cache" {
				return site, fn, ""
			}
		} else if !strings.HasSuffix(fr.File, "internal/cache/cache.go") {
			// the first frame outside the generic cache names the cache class
			if c, ok := sites[s]; ok && strings.HasPrefix(c, "cache:") {
				return site, fn, strings.TrimPrefix(c, "cache:") + "/Cache.mu"
			}
			return site, fn, ""
		}
		if !more {
			return site, fn, ""
		}
	}
}

func (m *Mutex) Lock() {
	g := gid()
	site, fn, class := callSite()
	if h := Hook; h != nil {
		h("before-lock", fn, m)
	}
	gmu.Lock()
	locks++
	if m.class == "" && class != "" {
		m.class = class
	}
	if m.first == "" {
		m.first = site
	}
	for _, h := range held[g] {
		k := [2]*Mutex{h.m, m}
		if _, ok := edges[k]; !ok {
			edges[k] = &Edge{FromSite: h.site, ToSite: site, From: h.m, To: m, Self: h.m == m}
		}
	}
	gmu.Unlock()
	m.mu.Lock()
	gmu.Lock()
	held[g] = append(held[g], heldEntry{m, site})
	gmu.Unlock()
	if h := Hook; h != nil {
		h("after-lock", fn, m)
	}
}

func (m *Mutex) Unlock() {
	g := gid()
	gmu.Lock()
	hs := held[g]
	found := false
	for i := len(hs) - 1; i >= 0; i-- {
		if hs[i].m == m {
			hs = append(hs[:i:i], hs[i+1:]...)
			found = true
			break
		}
	}
	if !found { // unlocked by another goroutine than the one that locked it: drop it wherever it is held
		for og, ohs := range held {
			for i := len(ohs) - 1; i >= 0; i-- {
				if ohs[i].m == m {
					held[og] = append(ohs[:i:i], ohs[i+1:]...)
					found = true
					break
				}
			}
			if found {
				break
			}
		}
	} else if len(hs) == 0 {
		delete(held, g)
	} else {
		held[g] = hs
	}
	gmu.Unlock()
	m.mu.Unlock()
}

func (m *Mutex) Class() string {
	if m.class != "" {
		return m.class
	}
	return "?" + m.first
}

// Edges returns the recorded instance-level edges with their classes, sorted.
func Edges() []Edge {
	gmu.Lock()
	defer gmu.Unlock()
	out := make([]Edge, 0, len(edges))
	for _, e := range edges {
		c := *e
		c.FromClass, c.ToClass = e.From.Class(), e.To.Class()
		out = append(out, c)
	}
	sort.Slice(out, func(i, j int) bool {
		return out[i].FromClass+out[i].ToClass+out[i].FromSite+out[i].ToSite < out[j].FromClass+out[j].ToClass+out[j].FromSite+out[j].ToSite
	})
	return out
}

func LockCount() int { gmu.Lock(); defer gmu.Unlock(); return locks }

// Cycles: cycles among the recorded instance-level edges (a self edge is a cycle of length one); each cycle is reported
// once as "class@site -> class@site -> ..."
func Cycles() []string {
	es := Edges()
	adj := map[*Mutex][]Edge{}
	for _, e := range es {
		adj[e.From] = append(adj[e.From], e)
	}
	seen := map[string]bool{}
	var out []string
	for _, e := range es {
		if e.Self {
			out = append(out, fmt.Sprintf("self: %s held (locked at %s), locked again at %s", e.FromClass, e.FromSite, e.ToSite))
		}
	}
	// depth-first search for a path back to the start, bounded length
	var path []Edge
	var dfs func(start, cur *Mutex, depth int)
	dfs = func(start, cur *Mutex, depth int) {
		if depth > 4 {
			return
		}
		for _, e := range adj[cur] {
			if e.Self {
				continue
			}
			path = append(path, e)
			if e.To == start {
				parts := []string{}
				keys := []string{}
				for _, p := range path {
					parts = append(parts, fmt.Sprintf("[%s held since %s] locks %s at %s", p.FromClass, p.FromSite, p.ToClass, p.ToSite))
					keys = append(keys, p.FromClass+">"+p.ToClass)
				}
				sort.Strings(keys)
				k := strings.Join(keys, "|")
				if !seen[k] {
					seen[k] = true
					out = append(out, "cycle: "+strings.Join(parts, "  ;  "))
				}
			} else {
				on := false
				for _, p := range path[:len(path)-1] {
					if p.From == e.To {
						on = true
					}
				}
				if !on {
					dfs(start, e.To, depth+1)
				}
			}
			path = path[:len(path)-1]
		}
	}
	for m := range adj {
		dfs(m, m, 0)
	}
	sort.Strings(out)
	return out
}
