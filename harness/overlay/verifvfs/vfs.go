// Package verifvfs is a stand-in for the parts of package os that internal/store/dir.go uses.  It is added to the
// tree under test by `go build -overlay` (as <module>/verifvfs) and `os.X` is rewritten to `verifvfs.X` in dir.go by
// vlib/p_crash.py; nothing is written into the tree.
//
// Every *mutating* call (MkdirAll, CreateTemp, WriteFile, Rename, Remove, Chtimes, and Write/Close on a handle that was opened
// for writing) is
//
//   - logged with root-relative canonical paths (the random suffix of a temporary file becomes `#`), and
//   - announced to a registered hook *before* it is executed; writes are also announced "in the middle", i.e. after a
//     prefix of the bytes has reached the file (and WriteFile after the truncation, before the first byte).
//
// The hook is where the harness copies the directory: in a process-crash model what is on disk at that instant is
// exactly what a restarted server finds.  Read-only calls are passed through untouched.
package verifvfs

import (
	"errors"
	"fmt"
	"io/fs"
	"os"
	"path/filepath"
	"regexp"
	"strings"
	"sync"
	"syscall"
	"time"
)

type FileInfo = os.FileInfo
type FileMode = os.FileMode

var ErrNotExist = os.ErrNotExist

func IsNotExist(err error) bool { return os.IsNotExist(err) }

// Point describes one crash point: the process dies right before the call (Mid == false) or after `Cut` of `Len`
// bytes of a write have reached the file (Mid == true).
type Point struct {
	K    int    // index of the mutating call within the current log (0-based)
	Op   string // canonical text of the call
	Mid  bool
	Cut  int
	Len  int
	Path string // absolute path the call works on
}

var (
	mu     sync.Mutex
	root   string
	log    []string
	hook   func(Point)
	paused bool
	// Cuts returns the prefix lengths (0 < c < n) at which a write of n bytes is interrupted
	Cuts = func(n int) []int {
		if n < 2 {
			return nil
		}
		return []int{n / 2}
	}
)

var reTmp = regexp.MustCompile(`(upload\.|index\.json\.)[0-9]+`)

// SetRoot names the directory the canonical paths are relative to and empties the log.
func SetRoot(r string) { mu.Lock(); root = filepath.Clean(r); log = nil; mu.Unlock() }

// SetHook registers (or, with nil, removes) the crash-point hook.
func SetHook(f func(Point)) { mu.Lock(); hook = f; mu.Unlock() }

// Pause switches logging and the hook off (while the harness itself opens servers on copies of the directory).
func Pause(p bool) { mu.Lock(); paused = p; mu.Unlock() }

// Drain returns the log of mutating calls since the last Drain.
func Drain() []string {
	mu.Lock()
	defer mu.Unlock()
	l := log
	log = nil
	return l
}

// Canon is the canonical (root-relative, temp suffix -> #) form of a path.
func Canon(p string) string {
	mu.Lock()
	r := root
	mu.Unlock()
	return canon(r, p)
}

func canon(r, p string) string {
	p = filepath.Clean(p)
	if r != "" {
		if p == r {
			p = "."
		} else if strings.HasPrefix(p, r+string(filepath.Separator)) {
			p = p[len(r)+1:]
		} else {
			p = "OUTSIDE:" + p
		}
	}
	return reTmp.ReplaceAllString(p, "$1#")
}

// announce logs a mutating call and runs the hook before it; it returns the index of the call
func announce(path string, format string, a ...any) int {
	mu.Lock()
	if paused {
		mu.Unlock()
		return -1
	}
	op := fmt.Sprintf(format, a...)
	k := len(log)
	log = append(log, op)
	h := hook
	mu.Unlock()
	if h != nil {
		h(Point{K: k, Op: op, Path: path})
	}
	return k
}

func mid(k int, path string, cut, n int) {
	mu.Lock()
	if paused || k < 0 || k >= len(log) {
		mu.Unlock()
		return
	}
	op := log[k]
	h := hook
	mu.Unlock()
	if h != nil {
		h(Point{K: k, Op: op, Mid: true, Cut: cut, Len: n, Path: path})
	}
}

// result appends the outcome of a failed call to its log entry (`!notempty`, `!noent`, `!err`)
func result(k int, err error) {
	if err == nil || k < 0 {
		return
	}
	tag := "!err"
	switch {
	case errors.Is(err, fs.ErrNotExist):
		tag = "!noent"
	case errors.Is(err, syscall.ENOTEMPTY) || errors.Is(err, syscall.EEXIST):
		tag = "!notempty"
	}
	mu.Lock()
	if k < len(log) {
		log[k] += " " + tag
	}
	mu.Unlock()
}

func rel(p string) string { return Canon(p) }

// File wraps *os.File; handles returned by CreateTemp are mutable: their Write and Close calls are crash points.
type File struct {
	*os.File
	path string
	mut  bool
}

func (f *File) Write(p []byte) (int, error) {
	if !f.mut {
		return f.File.Write(p)
	}
	k := announce(f.path, "write %s", rel(f.path))
	done := 0
	for _, c := range Cuts(len(p)) {
		if c <= done || c >= len(p) {
			continue
		}
		n, err := f.File.Write(p[done:c])
		done += n
		if err != nil {
			result(k, err)
			return done, err
		}
		mid(k, f.path, done, len(p))
	}
	n, err := f.File.Write(p[done:])
	result(k, err)
	return done + n, err
}

func (f *File) Close() error {
	if !f.mut {
		return f.File.Close()
	}
	k := announce(f.path, "close %s", rel(f.path))
	err := f.File.Close()
	result(k, err)
	return err
}

func Stat(name string) (FileInfo, error)         { return os.Stat(name) }
func ReadFile(name string) ([]byte, error)       { return os.ReadFile(name) }
func ReadDir(name string) ([]fs.DirEntry, error) { return os.ReadDir(name) }

func Open(name string) (*File, error) {
	f, err := os.Open(name)
	if err != nil {
		return nil, err
	}
	return &File{File: f, path: name}, nil
}

func Remove(name string) error {
	k := announce(name, "remove %s", rel(name))
	err := os.Remove(name)
	result(k, err)
	return err
}

// Chtimes changes metadata only (never a name or a content); it is a mutating call of the trace and a crash point like
// the others - the directory copy taken before it equals the one taken after it up to the times
func Chtimes(name string, atime, mtime time.Time) error {
	k := announce(name, "chtimes %s", rel(name))
	err := os.Chtimes(name, atime, mtime)
	result(k, err)
	return err
}

// MkdirAll is logged only when the directory does not exist yet (an existing directory is left alone by os.MkdirAll)
func MkdirAll(path string, perm FileMode) error {
	if fi, err := os.Stat(path); err == nil && fi.IsDir() {
		return os.MkdirAll(path, perm)
	}
	k := announce(path, "mkdirall %s", rel(path))
	err := os.MkdirAll(path, perm)
	result(k, err)
	return err
}

func Rename(a, b string) error {
	k := announce(a, "rename %s %s", rel(a), rel(b))
	err := os.Rename(a, b)
	result(k, err)
	return err
}

// CreateTemp: the name is not known before the call; the crash point is announced with the pattern and the log entry
// is completed afterwards
func CreateTemp(dir, pattern string) (*File, error) {
	pat := strings.Replace(pattern, "*", "#", 1)
	k := announce(filepath.Join(dir, pattern), "createtemp %s", rel(filepath.Join(dir, pat)))
	f, err := os.CreateTemp(dir, pattern)
	if err != nil {
		result(k, err)
		return nil, err
	}
	return &File{File: f, path: f.Name(), mut: true}, nil
}

// WriteFile is os.WriteFile spelled out: create-or-truncate, write, close - it is *not* atomic.  Crash points: before
// the call, after the truncation (empty file), and after each prefix of Cuts.
func WriteFile(name string, data []byte, perm FileMode) error {
	k := announce(name, "writefile %s", rel(name))
	f, err := os.OpenFile(name, os.O_WRONLY|os.O_CREATE|os.O_TRUNC, perm)
	if err != nil {
		result(k, err)
		return err
	}
	mid(k, name, 0, len(data))
	done := 0
	for _, c := range Cuts(len(data)) {
		if c <= done || c >= len(data) {
			continue
		}
		n, err := f.Write(data[done:c])
		done += n
		if err != nil {
			_ = f.Close()
			result(k, err)
			return err
		}
		mid(k, name, done, len(data))
	}
	_, err = f.Write(data[done:])
	if err1 := f.Close(); err1 != nil && err == nil {
		err = err1
	}
	result(k, err)
	return err
}
