//go:build sched

package olareg

// Scheduler hook for C11 (added to the tree under test by `go build -overlay` as <REPO>/verif_sched.go; nothing is
// written to the repository).  Every store action of a request that carries a thread id in its context passes a gate
// before it runs, so a controller in the harness can let exactly one request goroutine run from one gate to the next.
// The sync.Mutex and sync.RWMutex fields of package olareg are rewritten to VerifMutex and VerifRWMutex by the same
// overlay (vlib/p_conc.py), so taking a handler-level lock is a gate too and the controller knows who holds it: a
// request parked in front of a held lock is "blocked", never a deadlock of the harness.
import (
	"context"
	"io"
	"sync"

	"github.com/opencontainers/go-digest"

	"github.com/olareg/olareg/internal/store"
	"github.com/olareg/olareg/types"
)

// VerifTidKey is the request-context key that carries the harness' thread id (an int, 0 = not scheduled).
type VerifTidKey struct{}

// VerifGate is called before a store action (it may block the caller); a call name starting with '-' is a
// notification that must not block (the repository handle was released).
type VerifGate func(tid int, call, repo string)

// VerifWrapStore makes every store action of every request with a thread id pass through gate; VerifUnwrapStore
// restores the store.
func (s *Server) VerifWrapStore(gate VerifGate) {
	if _, ok := s.store.(*verifStore); !ok {
		s.store = &verifStore{Store: s.store, gate: gate}
	}
}

func (s *Server) VerifUnwrapStore() {
	if vs, ok := s.store.(*verifStore); ok {
		s.store = vs.Store
	}
}

type verifStore struct {
	store.Store
	gate VerifGate
}

func (vs *verifStore) RepoGet(ctx context.Context, repoStr string) (store.Repo, error) {
	tid, _ := ctx.Value(VerifTidKey{}).(int)
	if tid == 0 {
		return vs.Store.RepoGet(ctx, repoStr)
	}
	vs.gate(tid, "RepoGet", repoStr)
	r, err := vs.Store.RepoGet(ctx, repoStr)
	if err != nil {
		return r, err
	}
	return &verifRepo{Repo: r, tid: tid, name: repoStr, gate: vs.gate}, nil
}

// verifRepo embeds the interface, so the unexported methods of store.Repo are promoted.
type verifRepo struct {
	store.Repo
	tid  int
	name string
	gate VerifGate
}

func (vr *verifRepo) IndexGet() (types.Index, error) {
	vr.gate(vr.tid, "IndexGet", vr.name)
	return vr.Repo.IndexGet()
}
func (vr *verifRepo) IndexInsert(d types.Descriptor, o ...types.IndexOpt) error {
	vr.gate(vr.tid, "IndexInsert", vr.name)
	return vr.Repo.IndexInsert(d, o...)
}
func (vr *verifRepo) IndexRemove(d types.Descriptor) error {
	vr.gate(vr.tid, "IndexRemove", vr.name)
	return vr.Repo.IndexRemove(d)
}
func (vr *verifRepo) BlobGet(d digest.Digest) (io.ReadSeekCloser, error) {
	vr.gate(vr.tid, "BlobGet", vr.name)
	return vr.Repo.BlobGet(d)
}
func (vr *verifRepo) BlobCreate(o ...store.BlobOpt) (store.BlobCreator, string, error) {
	vr.gate(vr.tid, "BlobCreate", vr.name)
	return vr.Repo.BlobCreate(o...)
}
func (vr *verifRepo) BlobDelete(d digest.Digest) error {
	vr.gate(vr.tid, "BlobDelete", vr.name)
	return vr.Repo.BlobDelete(d)
}
func (vr *verifRepo) BlobSession(id string) (store.BlobCreator, error) {
	vr.gate(vr.tid, "BlobSession", vr.name)
	return vr.Repo.BlobSession(id)
}
func (vr *verifRepo) Done() {
	vr.Repo.Done()
	vr.gate(vr.tid, "-Done", vr.name)
}

// VerifMutex and VerifRWMutex replace sync.Mutex and sync.RWMutex in package olareg under this overlay.  With
// VerifLockHook unset they are the plain locks.
type VerifMutex struct{ mu sync.Mutex }
type VerifRWMutex struct{ mu sync.RWMutex }

// VerifLockHook is called by the goroutine that is about to take a lock ("lock", "rlock": before it blocks) or has
// released one ("unlock", "runlock"); m identifies the lock.
var VerifLockHook func(ev string, m any)

func verifHook(ev string, m any) {
	if h := VerifLockHook; h != nil {
		h(ev, m)
	}
}

func (m *VerifMutex) Lock()         { verifHook("lock", m); m.mu.Lock() }
func (m *VerifMutex) Unlock()       { m.mu.Unlock(); verifHook("unlock", m) }
func (m *VerifMutex) TryLock() bool { return m.mu.TryLock() }

func (m *VerifRWMutex) Lock()    { verifHook("lock", m); m.mu.Lock() }
func (m *VerifRWMutex) Unlock()  { m.mu.Unlock(); verifHook("unlock", m) }
func (m *VerifRWMutex) RLock()   { verifHook("rlock", m); m.mu.RLock() }
func (m *VerifRWMutex) RUnlock() { m.mu.RUnlock(); verifHook("runlock", m) }
